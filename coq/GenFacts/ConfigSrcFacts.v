(* ConfigSrcFacts.v — the hand-written definitions of Model/Config.v ARE the source's.

   Gen/GenConfigSrc.v is regenerated on every run from the Python AST of src/ka/config.py (read_config,
   read_config_file, get, class ConfigProperties), src/ka/currency.py (load_currency_data), src/ka/units.py (the
   module-level statements that load the table and choose the base currency) and src/ka/interpret.py
   (history_enabled, load_history, save_history) by harness/trans_config.py; the trusted construct mapping is in the
   header of the generated file.  The currency parser and the registration loop are in GenFacts/CurrencySrcFacts.v.

   The source works on global state (CONFIG, HAVE_READ, the streams): a translated function takes the state and
   returns (result, state) — the state survives an exception.  The models are pure functions of the configuration
   that return the new configuration and the warnings.  Every lemma says: the translated function, run on a state,
   gives the model's result and the state the model's result describes (CONFIG, what was printed where).
   [str_or_unset] / [cfg_wf] are explicit well-formedness hypotheses, PROVED to hold at start-up (read_config_wf,
   wf_textual, used in units_import_is_source).

   A change of meaning in a translated function breaks its lemma (or leaves the generated file without the
   definition: fail closed). *)
From Coq Require Import List String ZArith QArith Ascii Bool Lia.
From Ka Require Import Model.Config Proofs.CurrencyProofs Proofs.ConfigProofs GenFacts.ConfigFacts Gen.GenConfigSrc
  GenFacts.CurrencySrcFacts.
Import ListNotations.
Local Open Scope string_scope.

Lemma sfor_all_next {S X R} (body : X -> unit -> S -> sres S (flow unit R)) (step : X -> S -> S) :
  (forall x s, body x tt s = (POk (FNext tt), step x s)) ->
  forall xs s, sfor body xs tt s = (POk (FNext tt), fold_left (fun s x => step x s) xs s).
Proof.
  intros H xs. induction xs as [|x xs IH]; intro s; [reflexivity|].
  cbn [sfor fold_left]. rewrite H. apply IH.
Qed.

Definition apply_effect (eo : bool) (e : effect) (w : cworld) : cworld :=
  match e with
  | ESet k v => set_CONFIG ((k, v) :: w_CONFIG w) w
  | EWarn m => if eo then print_stream true m w else w
  | ESkip => w
  end.

Definition after_lines (eo : bool) (w : cworld) (r : config * list warning) : cworld :=
  mkW (fst r) (w_HAVE_READ w) (w_error_out w ++ (if eo then snd r else [])) (w_stderr w) (w_stdout w) (w_file w).

Lemma fold_effects eo w0 : forall ls c ws,
  fold_left (fun s x => apply_effect eo (line_effect x) s) ls (after_lines eo w0 (c, ws))
  = after_lines eo w0 (apply_lines (c, ws) ls).
Proof.
  induction ls as [|l ls IH]; intros c ws; [reflexivity|].
  cbn [fold_left]. unfold apply_lines. cbn [fold_left]. fold (apply_lines (apply_line (c, ws) l) ls).
  replace (apply_effect eo (line_effect l) (after_lines eo w0 (c, ws)))
    with (after_lines eo w0 (apply_line (c, ws) l)).
  - destruct (apply_line (c, ws) l) as [c' ws']. apply IH.
  - unfold apply_line. destruct (line_effect l) as [k v|m|]; cbn [apply_effect fst snd].
    + reflexivity.
    + destruct eo; unfold after_lines, print_stream; cbn [fst snd w_CONFIG w_HAVE_READ w_error_out w_stderr w_stdout w_file];
        [rewrite app_assoc|]; reflexivity.
    + reflexivity.
Qed.

Lemma after_lines_nil eo w : after_lines eo w (w_CONFIG w, []) = w.
Proof. destruct w; unfold after_lines; cbn. destruct eo; rewrite app_nil_r; reflexivity. Qed.

Lemma read_config_file_is_source : forall fs path eo w,
  g_read_config_file fs path eo w =
  match read_config_file (fs path) (w_CONFIG w) with
  | POk r => (POk tt, after_lines eo (set_HAVE_READ true w) r)
  | PRaise e => (PRaise e, set_HAVE_READ true w)
  end.
Proof.
  intros fs path eo w. unfold g_read_config_file, read_config_file.
  destruct (path_exists (fs path) && path_isfile (fs path)) eqn:E; cbn [negb].
  - destruct (open_read (fs path)) as [text|e] eqn:O; cbn [slift sbind pbind]; [|reflexivity].
    match goal with |- context [sfor ?b] => set (body := b) end.
    assert (Hbody : forall line st, body line tt st = (POk (FNext tt), apply_effect eo (line_effect line) st)).
    { intros line st. unfold body; clear body. unfold line_effect, split_max1.
      change (split1 "="%char line) with (split1 ch_eq line).
      destruct (split1 ch_eq line) as [[k0 v0]|] eqn:S1; [|reflexivity].
      cbn [List.length Z.of_nat map unpack2 slift sbind].
      change (Z.pos (Pos.of_succ_nat 1) <? 2)%Z with false. cbv iota.
      change g_config_props with config_props. fold (prop_of (strip k0)).
      destruct (prop_of (strip k0)) as [p|]; [|destruct eo; reflexivity].
      destruct (cp_num p).
      * unfold py_int. destruct (parse_int (strip v0)) as [z|]; cbn [stry catches existsb slift sbind].
        -- destruct (Z.ltb_spec z 0); [destruct eo; reflexivity|].
           unfold max_num. destruct (Z.gtb_spec z (2 ^ 31 - 1)); destruct (Z.leb_spec (2 ^ 31) z); try lia;
             [destruct eo; reflexivity|]. destruct (cp_bool p); [destruct eo; reflexivity|reflexivity].
        -- change (is_subclass "ValueError" "ValueError") with true. destruct eo; reflexivity.
      * destruct (cp_bool p); [|reflexivity].
        destruct (strip v0 =? "true"); [reflexivity|]. destruct (strip v0 =? "false"); [reflexivity|].
        destruct eo; reflexivity. }
    rewrite (sfor_all_next body (fun line w => apply_effect eo (line_effect line) w) Hbody). clear Hbody body.
    cbn [sbind]. f_equal.
    rewrite <- (after_lines_nil eo (set_HAVE_READ true w)) at 1. apply fold_effects.
  - change (w_CONFIG w) with (w_CONFIG (set_HAVE_READ true w)). rewrite after_lines_nil. reflexivity.
Qed.

Lemma handler_classes_read_config : handler_classes "config.read_config" = ["OSError"; "UnicodeDecodeError"].
Proof. reflexivity. Qed.

Lemma read_config_is_source : forall fs path eo w,
  g_read_config fs path eo w =
  match read_config (fs path) (w_CONFIG w) with
  | POk r => (POk tt, after_lines eo (set_HAVE_READ true w) r)
  | PRaise e => (PRaise e, set_HAVE_READ true w)
  end.
Proof.
  intros fs path eo w. unfold g_read_config, read_config, try_, caught_by.
  rewrite handler_classes_read_config, read_config_file_is_source.
  destruct (read_config_file (fs path) (w_CONFIG w)) as [r|e]; cbn [sbind stry]; [reflexivity|].
  unfold catches. destruct (existsb (is_subclass e) ["OSError"; "UnicodeDecodeError"]); [|reflexivity].
  destruct eo; [reflexivity|].
  change (w_CONFIG w) with (w_CONFIG (set_HAVE_READ true w)).
  destruct w; unfold after_lines, set_HAVE_READ; cbn. rewrite app_nil_r. reflexivity.
Qed.

Lemma after_lines_silent w r : after_lines false w r = set_CONFIG (fst r) w.
Proof. destruct w; unfold after_lines, set_CONFIG; cbn. rewrite app_nil_r. reflexivity. Qed.

(* config.get: the value is the stored one, else the default of the property ... *)
Lemma get_value_is_source : forall c p, prop_of (cp_name p) = Some p ->
  cfg_get c (cp_name p) = Some (gval_cval (config_get c (cp_name p) (GDefault p))).
Proof.
  intros c p H. unfold cfg_get, config_get. destruct (assoc (cp_name p) c); [reflexivity|].
  rewrite H. reflexivity.
Qed.

(* ... after the configuration file has been read, which the first call does (without an error_out) *)
Lemma get_is_source : forall fs p w,
  g_get fs p w =
  if w_HAVE_READ w then (POk (config_get (w_CONFIG w) (cp_name p) (GDefault p)), w)
  else match read_config (fs PConfig) (w_CONFIG w) with
       | POk r => (POk (config_get (fst r) (cp_name p) (GDefault p)), set_CONFIG (fst r) (set_HAVE_READ true w))
       | PRaise e => (PRaise e, set_HAVE_READ true w)
       end.
Proof.
  intros fs p w. unfold g_get. destruct (w_HAVE_READ w); [reflexivity|].
  rewrite read_config_is_source. destruct (read_config (fs PConfig) (w_CONFIG w)) as [r|e]; [|reflexivity].
  cbn [sbind]. rewrite after_lines_silent. reflexivity.
Qed.

Definition str_or_unset (c : config) (k : string) : Prop :=
  match assoc k c with Some (VStr _) | None => True | Some _ => False end.

Definition add_stderr (ws : list warning) (w : cworld) : cworld :=
  mkW (w_CONFIG w) (w_HAVE_READ w) (w_error_out w) (w_stderr w ++ ws) (w_stdout w) (w_file w).

Lemma add_stderr_nil w : add_stderr [] w = w.
Proof. destruct w; unfold add_stderr; cbn. rewrite app_nil_r. reflexivity. Qed.

(* a path option read through config.get designates the file the model's path_of designates *)
Lemma path_of_is_source : forall c p, str_or_unset c (cp_name p) ->
  gval_path (config_get c (cp_name p) (GDefault p)) = POk (path_of c (cp_name p)).
Proof.
  intros c p H. unfold str_or_unset in H. unfold config_get, path_of.
  destruct (assoc (cp_name p) c) as [[z|b|s]|]; try contradiction; reflexivity.
Qed.

Lemma handler_classes_load_currency : handler_classes "currency.load_currency_data" = ["Exception"].
Proof. reflexivity. Qed.

Lemma load_currency_data_is_source : forall fs pf w,
  w_HAVE_READ w = true -> str_or_unset (w_CONFIG w) "currency-path" ->
  g_parse_currency_data pf g_DEFAULT_CURRENCY_DATA = POk (Some currency_data) ->
  g_load_currency_data fs pf w =
  match load_currency_data pf (w_CONFIG w) fs with
  | POk (t, _, ws) => (POk (Some t), add_stderr ws w)
  | PRaise e => (PRaise e, w)
  end.
Proof.
  intros fs pf w HR HS HB. unfold g_load_currency_data, load_currency_data.
  rewrite get_is_source, HR, HB. cbn [sbind]. cbv zeta.
  unfold exists_gval, open_gval.
  rewrite (path_of_is_source (w_CONFIG w) g_prop_CURRENCY_PATH HS).
  change (cp_name g_prop_CURRENCY_PATH) with "currency-path".
  cbn [pbind slift sbind]. unfold try_, caught_by. rewrite handler_classes_load_currency.
  generalize (fs (path_of (w_CONFIG w) "currency-path")) as s. intro s.
  destruct (path_exists s).
  - destruct (open_read s) as [text|e]; cbn [pbind slift sbind stry].
    + rewrite parse_currency_data_is_source.
      destruct (parse_currency_data pf text) as [[|x t]| |]; cbn [of_parsed slift sbind stry pbind fst snd optlist_truthy].
      * rewrite add_stderr_nil. reflexivity.
      * rewrite add_stderr_nil. reflexivity.
      * rewrite add_stderr_nil. reflexivity.
      * unfold catches. change (existsb (is_subclass "ValueError") ["Exception"]) with true. cbv iota.
        cbn [slift sbind pbind fst snd]. reflexivity.
    + unfold catches. destruct (existsb (is_subclass e) ["Exception"]); [|reflexivity].
      cbn [slift sbind pbind fst snd]. reflexivity.
  - cbn [slift sbind pbind fst snd]. rewrite add_stderr_nil. reflexivity.
Qed.

(* the tables of the source text are the regenerated (live) tables of Gen/GenConfig.v, Gen/GenCurrency.v *)
Lemma config_props_is_source : g_config_props = config_props.
Proof. reflexivity. Qed.

Definition smap {S A B} (f : A -> B) (r : sres S A) : sres S B :=
  match r with (POk a, s) => (POk (f a), s) | (PRaise e, s) => (PRaise e, s) end.

Lemma cfg_str_is_source : forall c p s, prop_of (cp_name p) = Some p ->
  gval_cval (config_get c (cp_name p) (GDefault p)) = VStr s -> cfg_str c (cp_name p) = s.
Proof. intros c p s H E. unfold cfg_str. rewrite (get_value_is_source c p H), E. reflexivity. Qed.

Lemma units_base_block_is_source : forall fs pf w s,
  w_HAVE_READ w = true -> str_or_unset (w_CONFIG w) "currency-path" ->
  g_parse_currency_data pf g_DEFAULT_CURRENCY_DATA = POk (Some currency_data) ->
  gval_cval (config_get (w_CONFIG w) "base-currency" (GDefault g_prop_BASE_CURRENCY)) = VStr s ->
  smap (fun r => (fst r, option_map gval_cval (snd r))) (g_units_base_block fs pf w) =
  match load_currency_data pf (w_CONFIG w) fs with
  | POk (t, _, ws) => (POk (Some t, option_map VStr (select_base s t)), add_stderr ws w)
  | PRaise e => (PRaise e, w)
  end.
Proof.
  intros fs pf w s HR HS HB Hs. unfold g_units_base_block. cbv zeta.
  rewrite (load_currency_data_is_source fs pf w HR HS HB).
  destruct (load_currency_data pf (w_CONFIG w) fs) as [[[t ff] ws]|e]; [|reflexivity].
  cbn [sbind]. rewrite get_is_source.
  change (w_HAVE_READ (add_stderr ws w)) with (w_HAVE_READ w). rewrite HR. cbn [sbind need_list slift].
  change (w_CONFIG (add_stderr ws w)) with (w_CONFIG w).
  change (cp_name g_prop_BASE_CURRENCY) with "base-currency".
  rewrite (has_currency_is_source _ s t Hs). cbn [sbind]. unfold select_base.
  destruct (has_currency s t); cbn [smap fst snd option_map]; [rewrite Hs; reflexivity|].
  rewrite (has_currency_is_source (GStored (VStr "eur")) "eur" t eq_refl). cbn [sbind].
  change default_base_currency with "eur".
  destruct (has_currency "eur" t); reflexivity.
Qed.

Lemma history_enabled_is_source : forall fs w, w_HAVE_READ w = true ->
  smap gval_truthy (g_history_enabled fs w) = (POk (history_enabled (w_CONFIG w)), w).
Proof.
  intros fs w HR. unfold g_history_enabled. rewrite get_is_source, HR. cbn [sbind smap].
  unfold history_enabled.
  change "save-history" with (cp_name g_prop_SAVE_HISTORY).
  rewrite (get_value_is_source (w_CONFIG w) g_prop_SAVE_HISTORY eq_refl). reflexivity.
Qed.

Lemma eqb_space_nonspace c ch : is_space c = true -> is_space ch = false -> Ascii.eqb c ch = false.
Proof.
  intros Hc Hch. destruct (Ascii.eqb c ch) eqn:E; [|reflexivity].
  apply Ascii.eqb_eq in E. subst. congruence.
Qed.

Lemma contains_lstrip ch s : is_space ch = false -> contains ch (lstrip s) = contains ch s.
Proof.
  intro H. induction s as [|c r IH]; [reflexivity|]. cbn [lstrip].
  destruct (is_space c) eqn:Sc; [|reflexivity]. cbn [contains]. rewrite (eqb_space_nonspace c ch Sc H). exact IH.
Qed.

Lemma contains_rstrip ch s : is_space ch = false -> contains ch (rstrip s) = contains ch s.
Proof.
  intro H. induction s as [|c r IH]; [reflexivity|]. cbn [rstrip contains]. rewrite <- IH.
  destruct (rstrip r) as [|c' r'].
  - destruct (is_space c) eqn:Sc; cbn [contains]; [rewrite (eqb_space_nonspace c ch Sc H)|]; reflexivity.
  - reflexivity.
Qed.

Lemma contains_strip ch s : is_space ch = false -> contains ch (strip s) = contains ch s.
Proof. intro H. unfold strip. rewrite contains_rstrip, contains_lstrip by exact H. reflexivity. Qed.

Lemma len_pos_nonempty s : (Z.of_nat (String.length s) >? 0)%Z = negb (String.eqb s "").
Proof. destruct s; [reflexivity|]. cbn [String.length String.eqb negb]. rewrite Z.gtb_ltb. apply Z.ltb_lt. lia. Qed.

Lemma history_lines_are_source ls :
  map (fun line => strip line)
    (filter (fun line => (Z.of_nat (String.length (strip line)) >? 0)%Z && negb (contains (ascii_of_nat 0) line)) ls)
  = filter (fun l => negb (contains ch_nul l)) (filter (fun l => negb (String.eqb l "")) (map strip ls)).
Proof.
  induction ls as [|l ls IH]; [reflexivity|]. cbn [map filter]. rewrite len_pos_nonempty.
  change (ascii_of_nat 0) with ch_nul in *.
  destruct (String.eqb (strip l) ""); cbn [negb andb filter]; [exact IH|].
  rewrite (contains_strip ch_nul l eq_refl). destruct (contains ch_nul l); cbn [negb map]; [exact IH|].
  f_equal. exact IH.
Qed.

Lemma handler_classes_history :
  handler_classes "interpret.load_history" = ["Exception"] /\ handler_classes "interpret.save_history" = ["Exception"].
Proof. split; reflexivity. Qed.

Lemma load_history_is_source : forall fs w,
  w_HAVE_READ w = true -> str_or_unset (w_CONFIG w) "history-path" ->
  g_load_history fs w =
  match load_history (w_CONFIG w) fs with
  | POk (ls, ws) => (POk ls, add_stderr ws w)
  | PRaise e => (PRaise e, w)
  end.
Proof.
  intros fs w HR HS. unfold g_load_history, load_history. cbv zeta.
  rewrite get_is_source, HR. cbn [sbind].
  pose proof (history_enabled_is_source fs w HR) as HE.
  destruct (g_history_enabled fs w) as [[g|e] w']; cbn [smap] in HE; [|discriminate].
  inversion HE as [[Hg Hw]]. subst w'. cbn [sbind]. rewrite Hg. clear HE.
  destruct (history_enabled (w_CONFIG w)); [|rewrite add_stderr_nil; reflexivity].
  unfold exists_gval, open_gval.
  rewrite (path_of_is_source (w_CONFIG w) g_prop_HISTORY_PATH HS).
  change (cp_name g_prop_HISTORY_PATH) with "history-path".
  unfold try_, caught_by. rewrite (proj1 handler_classes_history).
  cbn [pbind slift sbind].
  generalize (fs (path_of (w_CONFIG w) "history-path")) as s. intro s.
  destruct (path_exists s); cbn [stry].
  - destruct (open_read s) as [text|e]; cbn [pbind slift sbind stry].
    + rewrite history_lines_are_source, add_stderr_nil. reflexivity.
    + unfold catches. destruct (existsb (is_subclass e) ["Exception"]); reflexivity.
  - rewrite add_stderr_nil. reflexivity.
Qed.

Lemma write_twice {B} (r : option wexn) (k : pres B) :
  pbind (write_step r) (fun _ => pbind (write_step r) (fun _ => k)) = pbind (write_step r) (fun _ => k).
Proof. destruct r; reflexivity. Qed.

Lemma save_history_is_source : forall fs wenv history w,
  w_HAVE_READ w = true -> str_or_unset (w_CONFIG w) "history-path" -> w_file w = WNothing ->
  let r := g_save_history fs wenv history w in
  match save_history (w_CONFIG w) fs wenv history with
  | POk (wr, ws) => fst r = POk tt /\ w_stderr (snd r) = (w_stderr w ++ ws)%list
                    /\ (ws = [] -> w_file (snd r) = wr) /\ w_CONFIG (snd r) = w_CONFIG w
  | PRaise e => fst r = PRaise e
  end.
Proof.
  intros fs wenv history w HR HS HF. unfold g_save_history, save_history. cbv zeta.
  rewrite get_is_source, HR. cbn [sbind].
  pose proof (history_enabled_is_source fs w HR) as HE.
  destruct (g_history_enabled fs w) as [[g|e] w']; cbn [smap] in HE; [|discriminate].
  inversion HE as [[Hg Hw]]. subst w'. cbn [sbind]. rewrite Hg. clear HE.
  unfold try_, caught_by. rewrite (proj2 handler_classes_history).
  destruct (history_enabled (w_CONFIG w)).
  2:{ cbn [stry fst snd]. rewrite app_nil_r. auto. }
  unfold exists_gval, open_write, file_write.
  rewrite (path_of_is_source (w_CONFIG w) g_prop_HISTORY_PATH HS).
  change (cp_name g_prop_HISTORY_PATH) with "history-path".
  cbn [pbind slift sbind].
  generalize (fs (path_of (w_CONFIG w) "history-path")) as s. intro s.
  unfold stry, catches.
  destruct (path_exists s); [|destruct (we_parent_exists wenv); [|destruct (os_step (we_makedirs wenv)) as [[]|e3]]];
    try (destruct (open_for_write s wenv) as [[]|e1]; [destruct (write_step (we_write wenv)) as [[]|e2]|]);
    cbn [pbind sbind slift stry fst snd set_file w_file w_stderr w_CONFIG print_stderr];
    repeat match goal with
           | |- context [existsb (is_subclass ?e) ["Exception"]] => destruct (existsb (is_subclass e) ["Exception"])
           end;
    cbn [pbind sbind slift stry fst snd set_file w_file w_stderr w_CONFIG print_stderr append];
    try reflexivity;
    repeat split; try (rewrite app_nil_r); try reflexivity; try (intro H; discriminate H).
Qed.

(* what read_config stores: only known options, and a str for an option that is neither num nor boolean *)
Definition cfg_wf (c : config) : Prop :=
  forall k v, In (k, v) c -> exists p, prop_of k = Some p /\ (cp_num p = false -> cp_bool p = false -> exists s, v = VStr s).

Lemma line_effect_wf l k v : line_effect l = ESet k v ->
  exists p, prop_of k = Some p /\ (cp_num p = false -> cp_bool p = false -> exists s, v = VStr s).
Proof.
  unfold line_effect. destruct (split1 ch_eq l) as [[k0 v0]|]; [|discriminate].
  destruct (prop_of (strip k0)) as [p|] eqn:P; [|discriminate].
  destruct (cp_num p) eqn:N.
  - destruct (parse_int (strip v0)) as [z|]; [|discriminate].
    destruct (z <? 0)%Z; [discriminate|]. destruct (max_num <=? z)%Z; [discriminate|].
    destruct (cp_bool p); [discriminate|]. intro H; inversion H; subst. exists p. split; [exact P|congruence].
  - destruct (cp_bool p) eqn:B.
    + destruct (strip v0 =? "true"); [intro H; inversion H; subst; exists p; split; [exact P|congruence]|].
      destruct (strip v0 =? "false"); [intro H; inversion H; subst; exists p; split; [exact P|congruence]|discriminate].
    + intro H; inversion H; subst. exists p. split; [exact P|]. intros _ _. eexists; reflexivity.
Qed.

Lemma apply_lines_wf : forall ls c ws, cfg_wf c -> cfg_wf (fst (apply_lines (c, ws) ls)).
Proof.
  induction ls as [|l ls IH]; intros c ws H; [exact H|].
  unfold apply_lines. cbn [fold_left]. fold (apply_lines (apply_line (c, ws) l) ls).
  unfold apply_line. destruct (line_effect l) as [k v|m|] eqn:E; cbn [fst snd]; try (apply IH; exact H).
  apply IH. intros k' v' [Hin|Hin]; [inversion Hin; subst; exact (line_effect_wf l k' v' E)|exact (H k' v' Hin)].
Qed.

Lemma read_config_wf s c r : cfg_wf c -> read_config s c = POk r -> cfg_wf (fst r).
Proof.
  intros H. unfold read_config, try_, read_config_file.
  destruct (negb (path_exists s && path_isfile s)); [intro E; inversion E; exact H|].
  destruct (open_read s) as [text|e]; cbn [pbind].
  - intro E; inversion E. apply apply_lines_wf. exact H.
  - destruct (caught_by "config.read_config" e); intro E; inversion E. exact H.
Qed.

Lemma assoc_in_key {A} k (l : list (string * A)) v : assoc k l = Some v -> In (k, v) l.
Proof.
  induction l as [|[k' v'] l IH]; cbn; [discriminate|].
  destruct (k =? k') eqn:E; intro H; [apply String.eqb_eq in E; inversion H; subst; left; reflexivity|right; exact (IH H)].
Qed.

Lemma wf_textual c k : cfg_wf c -> is_textual k = true -> str_or_unset c k.
Proof.
  intros H T. unfold str_or_unset. destruct (assoc k c) as [v|] eqn:A; [|exact I].
  destruct (H k v (assoc_in_key _ _ _ A)) as [p [P S]]. unfold is_textual in T. rewrite P in T.
  apply andb_prop in T. destruct T as [T1 T2]. apply negb_true_iff in T1, T2.
  destruct (S T1 T2) as [s ->]. exact I.
Qed.

Lemma wf_base_currency c : cfg_wf c ->
  gval_cval (config_get c "base-currency" (GDefault g_prop_BASE_CURRENCY)) = VStr (cfg_str c "base-currency").
Proof.
  intro H. pose proof (wf_textual c "base-currency" H eq_refl) as S. unfold str_or_unset in S.
  unfold cfg_str, cfg_get, config_get. destruct (assoc "base-currency" c) as [[z|b|s]|]; try contradiction; reflexivity.
Qed.

(* importing ka.units in a fresh process: the first config.get reads the configuration file, then the table is
   loaded and the base currency chosen — the first two steps of the model's [startup] and its [select_base] *)
Definition fresh_world : cworld := mkW [] false [] [] [] WNothing.

Theorem units_import_is_source : forall fs pf,
  g_parse_currency_data pf g_DEFAULT_CURRENCY_DATA = POk (Some currency_data) ->
  smap (fun r => (fst r, option_map gval_cval (snd r))) (g_units_base_block fs pf fresh_world) =
  match read_config (fs PConfig) [] with
  | PRaise e => (PRaise e, set_HAVE_READ true fresh_world)
  | POk (c1, _) =>
      match load_currency_data pf c1 fs with
      | POk (t, _, ws) => (POk (Some t, option_map VStr (select_base (cfg_str c1 "base-currency") t)),
                           mkW c1 true [] ws [] WNothing)
      | PRaise e => (PRaise e, mkW c1 true [] [] [] WNothing)
      end
  end.
Proof.
  intros fs pf HB.
  assert (G : forall w, w_HAVE_READ w = false ->
            g_units_base_block fs pf w =
            match read_config (fs PConfig) (w_CONFIG w) with
            | POk r => g_units_base_block fs pf (set_CONFIG (fst r) (set_HAVE_READ true w))
            | PRaise e => (PRaise e, set_HAVE_READ true w)
            end).
  { intros w HR. unfold g_units_base_block, g_load_currency_data. cbv zeta.
    rewrite !get_is_source, HR. cbn [set_CONFIG set_HAVE_READ w_HAVE_READ w_CONFIG].
    destruct (read_config (fs PConfig) (w_CONFIG w)) as [r|e]; reflexivity. }
  rewrite (G fresh_world eq_refl). cbn [w_CONFIG fresh_world].
  destruct (read_config (fs PConfig) []) as [[c1 w1]|e] eqn:RC; [|reflexivity].
  cbn [fst]. assert (WF : cfg_wf c1).
  { apply (read_config_wf _ _ _ (fun k v (H : In (k, v) []) => match H with end) RC). }
  set (w := set_CONFIG c1 (set_HAVE_READ true fresh_world)).
  rewrite (units_base_block_is_source fs pf w (cfg_str c1 "base-currency") eq_refl
             (wf_textual c1 "currency-path" WF eq_refl) HB (wf_base_currency c1 WF)).
  cbn [w w_CONFIG set_CONFIG]. destruct (load_currency_data pf c1 fs) as [[[t ff] ws]|e]; reflexivity.
Qed.

Print Assumptions sfor_all_next.
Print Assumptions fold_effects.
Print Assumptions after_lines_nil.
Print Assumptions read_config_file_is_source.
Print Assumptions handler_classes_read_config.
Print Assumptions read_config_is_source.
Print Assumptions after_lines_silent.
Print Assumptions get_value_is_source.
Print Assumptions get_is_source.
Print Assumptions add_stderr_nil.
Print Assumptions path_of_is_source.
Print Assumptions handler_classes_load_currency.
Print Assumptions load_currency_data_is_source.
Print Assumptions config_props_is_source.
Print Assumptions cfg_str_is_source.
Print Assumptions units_base_block_is_source.
Print Assumptions history_enabled_is_source.
Print Assumptions eqb_space_nonspace.
Print Assumptions contains_lstrip.
Print Assumptions contains_rstrip.
Print Assumptions contains_strip.
Print Assumptions len_pos_nonempty.
Print Assumptions history_lines_are_source.
Print Assumptions handler_classes_history.
Print Assumptions load_history_is_source.
Print Assumptions write_twice.
Print Assumptions save_history_is_source.
Print Assumptions line_effect_wf.
Print Assumptions apply_lines_wf.
Print Assumptions read_config_wf.
Print Assumptions assoc_in_key.
Print Assumptions wf_textual.
Print Assumptions wf_base_currency.
Print Assumptions units_import_is_source.
