(* The hand-written lookup_unit / apply_prefix of Model/Units.v ARE the source's: Gen/GenUnitsLookupSrc.v is
   regenerated from the Python AST of ka/units.py on every run (harness/trans_units.py) and proved equal to the
   model here, for every registry and every spelling.  The model's result additionally records WHICH prefix was
   applied (scaled_by, an index the source does not compute); [erase] forgets it. *)
From Coq Require Import List String QArith Bool.
From Ka Require Import Model.Units Gen.GenUnitsLookupSrc.
Import ListNotations.

Definition erase (r : lookup_result) : g_lookup :=
  match r with
  | LNone => GNone
  | LInvalidPrefix => GInvalidPrefix
  | LMalformed => GMalformed
  | LUnit i _ m e => GUnit i (e, m)
  end.

(* case analysis on every table lookup and every test of either side *)
Ltac lk_step :=
  match goal with
  | |- context [match nth_error ?l ?i with _ => _ end] => destruct (nth_error l i) eqn:?
  | |- context [match dict_get ?k ?d with _ => _ end] => destruct (dict_get k d) eqn:?
  | |- context [if ?c then _ else _] =>
      lazymatch type of c with bool => destruct c eqn:? end
  end.
Ltac lk_cases :=
  repeat (cbv beta iota zeta delta [g_tn g_tn_mul g_tn_nonzero fst snd]; cbn [negb andb orb erase]; try lk_step);
  try reflexivity; try congruence.

Section Facts.
Context (R : registry).

Lemma plain_is_source : forall i, erase (plain R i) = g_plain R i.
Proof. intros. unfold plain, g_plain. lk_cases. Qed.

(* apply_prefix: the offset test, the InvalidPrefixError, the product of the two multiples *)
Lemma apply_prefix_is_source : forall pi p i, erase (apply_prefix R pi p i) = g_apply_prefix R p i.
Proof. intros. unfold apply_prefix, g_apply_prefix. lk_cases. Qed.

(* one iteration of the loop over PREFIXES *)
Lemma prefix_loop_is_source (f : gprefix -> option g_lookup) (w : string) :
  (forall pi p, f p = match try_prefix R pi p w with Some x => Some (erase x) | None => None end) ->
  forall ps pi, erase (prefix_loop R pi ps w) = g_first ps f GNone.
Proof.
  intros Hf ps. induction ps as [|p ps IH]; intros pi; cbn [prefix_loop g_first]; [reflexivity|].
  rewrite (Hf pi p). destruct (try_prefix R pi p w); [reflexivity | apply IH].
Qed.

(* lookup_unit: names first, then symbols, then the prefixes in table order, name split before symbol split *)
Theorem lookup_unit_is_source : forall w, erase (lookup_unit_in R w) = g_lookup_unit R w.
Proof.
  intros w. unfold lookup_unit_in, g_lookup_unit.
  destruct (dict_get w (r_names R)) as [i|]; [apply plain_is_source|].
  destruct (dict_get w (r_symbols R)) as [i|]; [apply plain_is_source|].
  apply prefix_loop_is_source. intros pi p.
  unfold try_prefix, name_split, symbol_split. cbv beta zeta.
  repeat match goal with
         | |- context [String.prefix ?a ?b] => destruct (String.prefix a b) eqn:?
         | |- context [match dict_get ?k ?d with _ => _ end] => destruct (dict_get k d) eqn:?
         end; rewrite <- ?(apply_prefix_is_source pi); try reflexivity; try congruence.
Qed.
End Facts.

(* the live registry *)
Corollary lookup_unit_live_is_source : forall w, erase (lookup_unit w) = g_lookup_unit live w.
Proof. intros. apply lookup_unit_is_source. Qed.

Print Assumptions plain_is_source.
Print Assumptions apply_prefix_is_source.
Print Assumptions lookup_unit_is_source.
Print Assumptions lookup_unit_live_is_source.
