(* The hand-written definitions of Model/Comb.v ARE the source's: Gen/GenLogic.v is regenerated from
   the Python AST of types.py / utils.py on every run (harness/pytrans.py) and proved equal to the
   model here.  A change to IntRange.is_empty / intersects / difference or to lazy_factorial /
   lazy_choose breaks one of these lemmas (or leaves GenLogic without the definition: fail closed). *)
From Ka Require Import Model.Comb Gen.GenLogic.
Local Open Scope Z_scope.

Lemma is_empty_is_source : forall r, is_empty r = g_is_empty r.
Proof. reflexivity. Qed.
Lemma intersects_is_source : forall a b, intersects a b = g_intersects a b.
Proof. reflexivity. Qed.
Lemma difference_is_source : forall s o, difference s o = g_difference s o.
Proof. reflexivity. Qed.
Lemma lazy_factorial_is_source : forall n, lazy_factorial n = g_lazy_factorial n.
Proof. reflexivity. Qed.
Lemma lazy_choose_is_source : forall n k, lazy_choose n k = g_lazy_choose n k.
Proof. reflexivity. Qed.
