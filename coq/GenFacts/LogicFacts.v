(* The hand-written definitions of Model/Comb.v ARE the source's: Gen/GenLogic.v is regenerated from
   the Python AST of types.py / utils.py on every run (harness/pytrans.py) and proved equal to the
   model here.  A change to IntRange.is_empty / intersects / difference or to lazy_factorial /
   lazy_choose breaks one of these lemmas (or leaves GenLogic without the definition: fail closed). *)
From Coq Require Import ZArith Bool Lia.
From Ka Require Import Model.Comb Gen.GenLogic.
Local Open Scope Z_scope.

(* first by conversion; if the source was rewritten into an equivalent shape, by case analysis on every comparison
   (so a harmless restructuring of these functions still proves, a change of meaning does not) *)
Ltac cmp_cases :=
  repeat match goal with
         | |- context [?x <? ?y] => destruct (Z.ltb_spec x y)
         | |- context [?x <=? ?y] => destruct (Z.leb_spec x y)
         | |- context [?x =? ?y] => destruct (Z.eqb_spec x y)
         end; cbn [negb andb orb app]; try reflexivity; try (exfalso; lia).
Ltac same_as_source defs :=
  first [ reflexivity
        | intros; repeat match goal with r : range |- _ => destruct r end;
          autounfold with src; cbn [lo hi]; cmp_cases ].
#[local] Hint Unfold is_empty g_is_empty intersects g_intersects difference g_difference
                     lazy_factorial g_lazy_factorial lazy_choose g_lazy_choose nonempty_ranges : src.

Lemma is_empty_is_source : forall r, is_empty r = g_is_empty r.
Proof. same_as_source tt. Qed.
Lemma intersects_is_source : forall a b, intersects a b = g_intersects a b.
Proof. same_as_source tt. Qed.
Lemma difference_is_source : forall s o, difference s o = g_difference s o.
Proof. same_as_source tt. Qed.
Lemma lazy_factorial_is_source : forall n, lazy_factorial n = g_lazy_factorial n.
Proof. same_as_source tt. Qed.
Lemma lazy_choose_is_source : forall n k, lazy_choose n k = g_lazy_choose n k.
Proof. same_as_source tt. Qed.
