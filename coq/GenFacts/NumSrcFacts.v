(* NumSrcFacts.v — the hand-written model of Ka's exact numbers (Model/Num.v, and simp of Model/Elem.v) IS the
   source's: Gen/GenNumSrc.v is regenerated from the Python AST of ka/types.py and ka/functions.py on every run
   (harness/trans_num.py) and the model's definitions are proved equal to the generated ones here.  Property C01
   rests on this file; GenFacts/NumSrcElemFacts.v continues it for property C16.

   Two layers.
   (1) per function:  <f>_is_source : the model's definition = the generated g_<f>, for all arguments (for
       simplify_number: for every number a Python Fraction/float can be, i.e. with a reduced fraction inside).
   (2) per operator of C01: the model's n_add, n_sub, ... (what Num.v says dispatch("+") etc. deliver) = the body
       the LIVE registry (Gen/GenFunctions.v through Model/Dispatch.v's dispatch_decision) selects for the operand
       kinds, taken from the generated key table g_impl1/g_impl2, followed by the generated simplify_number.
       For + - * / % and the unary operators this is stated for exact (int/Fraction) operands: Num.v idealises
       floats and does not claim their kind.  For the comparisons and for ^ (up to the final simplification) it
       holds for all operands.

   A change of meaning in simplify_number, fraction_divide, is_true, intify, is_fractional or strict_pow, a change
   of which callable is registered for an operator, or an untranslatable rewrite (no definition: fail closed)
   breaks a lemma below. *)
From Coq Require Import ZArith QArith Qround Qabs Qreduction Bool Lia Lqa.
From Ka Require Import Model.Elem Proofs.NumProofs Gen.GenNumSrc.
From Ka Require Model.Dispatch.
Local Open Scope Q_scope.

(* what a Python Fraction (and the idealised float) always is: in lowest terms *)
Definition reduced (n : num) : Prop :=
  match n with NInt _ => True | NFrac q => Qred q = q | NFlt q => Qred q = q end.

(* ---- arithmetic helpers *)
Lemma Qeqb_true a b : Qeqb a b = true <-> a == b.
Proof. unfold Qeqb. rewrite Qeq_alt. destruct (a ?= b); split; congruence. Qed.

(* x != x is false on every value of the model: an idealised float is an exact rational, a NaN is not representable *)
Lemma Qeqb_refl a : Qeqb a a = true.
Proof. apply Qeqb_true. reflexivity. Qed.

Lemma p_ne_self a : p_ne a a = false.
Proof. unfold p_ne. rewrite Qeqb_refl. reflexivity. Qed.

Lemma Qeqb_inject a b : Qeqb (inject_Z a) (inject_Z b) = (a =? b)%Z.
Proof.
  destruct (Z.eqb_spec a b) as [E|N].
  - subst. apply Qeqb_true. reflexivity.
  - destruct (Qeqb (inject_Z a) (inject_Z b)) eqn:E; [|reflexivity].
    apply Qeqb_true in E. unfold Qeq in E. simpl in E. lia.
Qed.

Lemma Qred_idem q : Qred (Qred q) = Qred q.
Proof. apply Qred_complete, Qred_correct. Qed.

(* a reduced rational equal to an integer IS that integer over 1 *)
Lemma reduced_integer q z : Qred q = q -> q == inject_Z z -> q = inject_Z z.
Proof. intros H E. rewrite <- H, (Qred_complete _ _ E). apply Qred_inject_Z. Qed.

Lemma Qtrunc_inject z : Qtrunc (inject_Z z) = z.
Proof. unfold Qtrunc. simpl. apply Z.quot_1_r. Qed.

Lemma reduced_integral_iff q : Qred q = q ->
  Qeqb (inject_Z (Qtrunc q)) q = (Qden q =? 1)%positive.
Proof.
  intro H. destruct (Pos.eqb_spec (Qden q) 1) as [D|D].
  - apply Qeqb_true. destruct q as [n d]. simpl in D. subst d.
    change (n # 1) with (inject_Z n). rewrite Qtrunc_inject. reflexivity.
  - destruct (Qeqb (inject_Z (Qtrunc q)) q) eqn:E; [|reflexivity].
    apply Qeqb_true in E. symmetry in E. apply (reduced_integer _ _ H) in E.
    rewrite E in D. simpl in D. congruence.
Qed.

Lemma trunc_eq_integral q :
  Qeqb (inject_Z (Qtrunc (Qred q))) q = (Qden (Qred q) =? 1)%positive.
Proof.
  rewrite <- (reduced_integral_iff (Qred q) (Qred_idem q)).
  unfold Qeqb. rewrite (Qcompare_comp _ _ (Qeq_refl _) _ _ (Qred_correct q)). reflexivity.
Qed.

Lemma reduced_divides q : Qred q = q ->
  (Qnum q mod Zpos (Qden q) =? 0)%Z = (Qden q =? 1)%positive.
Proof.
  intro H. destruct (Pos.eqb_spec (Qden q) 1) as [D|D].
  - rewrite D. rewrite Z.mod_1_r. reflexivity.
  - destruct (Z.eqb_spec (Qnum q mod Zpos (Qden q)) 0) as [M|M]; [|reflexivity].
    exfalso. apply D.
    assert (E : q == inject_Z (Qnum q / Zpos (Qden q))).
    { unfold Qeq. simpl. rewrite Z.mul_1_r.
      rewrite (Z.div_mod (Qnum q) (Zpos (Qden q))) at 1 by discriminate. rewrite M. lia. }
    apply (reduced_integer _ _ H) in E. rewrite E. reflexivity.
Qed.

Lemma Qred_abs q : Qred q = q -> Qred (Qabs q) = Qabs q.
Proof.
  intro H. destruct q as [[|p|p] d]; try exact H.
  change (Qabs (Z.neg p # d)) with (- (Z.neg p # d)). rewrite Qred_opp, H. reflexivity.
Qed.

Lemma is_integral_int z : is_integral (NInt z) = true.
Proof. unfold is_integral. cbn [toQ]. rewrite Qred_inject_Z. reflexivity. Qed.

(* case analysis on every exact comparison left in the goal: a harmless restructuring of a guard (negation,
   branches swapped, and/or rearranged) still proves, a change of meaning does not *)
Ltac guard_atoms :=
  repeat match goal with
         | |- context [Qltb ?a ?b] => destruct (Qltb a b)
         | |- context [Qleb ?a ?b] => destruct (Qleb a b)
         | |- context [Qeqb ?a ?b] => destruct (Qeqb a b)
         | |- context [is_integral ?a] => destruct (is_integral a)
         end; cbn [negb andb orb]; try reflexivity.

(* ======================================================================== (1) per function *)

(* ---- types.py: is_true *)
Lemma is_true_is_source v : negb (Qis_zero (toQ v)) = g_is_true v.
Proof.
  unfold g_is_true, p_ne, p_eq, p_truthy. cbn [toQ].
  destruct (Qis_zero (toQ v)) eqn:E.
  - apply Qis_zero_spec in E. apply Qeqb_true in E. change (inject_Z 0) with 0. rewrite E. reflexivity.
  - destruct (Qeqb (toQ v) (inject_Z 0)) eqn:E2; [|reflexivity].
    apply Qeqb_true in E2. apply Qis_zero_spec in E2. congruence.
Qed.

Lemma is_true_b2n b : g_is_true (b2n b) = b.
Proof. rewrite <- is_true_is_source. destruct b; reflexivity. Qed.

Lemma truthy_b2n b : p_truthy (b2n b) = b.
Proof. destruct b; reflexivity. Qed.

(* ---- types.py: simplify_number.  [simp] (Model/Elem.v) is the model's simplify_number on a number of any kind;
   on an exact rational it is [norm] (Model/Num.v), which every operation of Num.v ends with. *)
Lemma simplify_number_is_source n : reduced n -> Ok (simp n) = g_simplify_number n.
Proof.
  destruct n as [z|q|q]; cbn [reduced]; intro H.
  - reflexivity.
  - unfold g_simplify_number. cbn [p_is_float p_is_frac simp negb].
    unfold norm. rewrite H.
    unfold p_mod, p_numerator, p_denominator. cbn [toQ].
    change (Qis_zero (inject_Z (Zpos (Qden q)))) with false. cbn iota.
    unfold bind. unfold p_eq, p_ne. cbn [toQ]. rewrite ?Qeqb_inject, ?(reduced_divides q H).
    destruct (Pos.eqb_spec (Qden q) 1) as [D|D]; cbn [negb]; [|reflexivity].
    unfold p_floordiv. cbn [toQ]. change (Qis_zero (inject_Z (Zpos (Qden q)))) with false. cbn iota.
    rewrite D, Z.div_1_r. reflexivity.
  - unfold g_simplify_number. cbn [p_is_float p_is_frac simp negb]. unfold simpf, p_modf. cbn [toQ]. rewrite H.
    (* the NaN test `fraction != fraction`: dead for the model's floats *)
    rewrite ?p_ne_self. cbn iota.
    unfold p_eq, p_ne. cbn [toQ].
    assert (E : Qeqb (q - inject_Z (Qtrunc q)) (inject_Z 0) = (Qden q =? 1)%positive).
    { rewrite <- (reduced_integral_iff q H).
      destruct (Qeqb (inject_Z (Qtrunc q)) q) eqn:E1.
      - apply Qeqb_true in E1. apply Qeqb_true. rewrite E1. unfold inject_Z. ring.
      - destruct (Qeqb (q - inject_Z (Qtrunc q)) (inject_Z 0)) eqn:E2; [|reflexivity].
        apply Qeqb_true in E2. assert (X : inject_Z (Qtrunc q) == q).
        { unfold inject_Z in E2 |- *. lra. }
        apply Qeqb_true in X. congruence. }
    rewrite E. destruct (Pos.eqb_spec (Qden q) 1) as [D|D]; cbn [negb]; [|reflexivity].
    unfold p_int. cbn [toQ]. rewrite Qred_inject_Z, Qtrunc_inject.
    destruct q as [n d]. simpl in D. subst d. change (n # 1) with (inject_Z n). rewrite Qtrunc_inject. reflexivity.
Qed.

(* the form in which Num.v uses it: Python's operators deliver a reduced Fraction; simplify_number of it is norm *)
Lemma norm_is_source q : Ok (norm q) = g_simplify_number (NFrac (Qred q)).
Proof.
  rewrite <- (simplify_number_is_source (NFrac (Qred q)) (Qred_idem q)).
  cbn [simp]. f_equal. apply norm_comp. symmetry. apply Qred_correct.
Qed.

(* a simplified number is a fixed point (canonical, exact: Num.v's invariant) *)
Lemma canonical_reduced a : canonical a -> exact a -> reduced a.
Proof. destruct a; cbn; try tauto. discriminate. Qed.

Lemma simp_canonical a : canonical a -> exact a -> simp a = a.
Proof.
  destruct a as [z|q|q]; cbn [canonical simp]; try reflexivity; [|discriminate].
  intros [H D] _. unfold norm. rewrite H.
  destruct (Pos.eqb_spec (Qden q) 1) as [E|E]; [|reflexivity]. rewrite E in D. discriminate.
Qed.

(* ---- types.py: fraction_divide, the (Integral, Integral) overload of "/": with the simplification dispatch
   applies, it is the model's division on two ints *)
Lemma fraction_divide_is_source x y :
  n_div (NInt x) (NInt y) = bind (g_fraction_divide (NInt x) (NInt y)) g_simplify_number.
Proof.
  unfold n_div, g_fraction_divide, p_frac. cbn [is_flt orb].
  destruct (Qis_zero (toQ (NInt y))); [reflexivity|].
  cbn [bind]. rewrite <- norm_is_source. reflexivity.
Qed.

(* ---- functions.py: intify *)
Lemma intify_is_source (f : num -> num -> bool) a b : b2n (f a b) = g_intify f a b.
Proof. unfold g_intify, b2n. destruct (f a b); reflexivity. Qed.

(* ---- functions.py: is_fractional — the model writes it [negb (is_integral x)] *)
Lemma is_fractional_is_source x : Ok (negb (is_integral x)) = g_is_fractional x.
Proof.
  unfold g_is_fractional, n_int, n_eq, n_ne, is_integral. cbn [bind toQ].
  rewrite ?is_true_b2n, ?truthy_b2n, ?trunc_eq_integral.
  first [ reflexivity | destruct (Qden (Qred (toQ x)) =? 1)%positive; reflexivity ].
Qed.

(* ---- functions.py: strict_pow.  Num.v's n_pow is the source's guard in front of Python's ** as Num.v models it
   (py_pow_num: the part of n_pow that is not the guard; a refactoring of Num.v could name it there). *)
Definition py_pow_num (a b : num) : res num :=
  match b with
  | NInt n =>
      if is_flt a then
        if Qis_zero (toQ a) && (n <? 0)%Z then Raise ZeroDivisionError
        else Ok (nflt (Qpower (toQ a) n))
      else if (0 <=? n)%Z then Ok (norm (Qpower (toQ a) n))
      else match a with
           | NInt x => if (x =? 0)%Z then Raise ZeroDivisionError
                       else Ok (nflt (Qpower (toQ a) n))
           | _ => Ok (norm (Qpower (toQ a) n))
           end
  | _ => Raise Unmodelled
  end.
Definition unmodelled1 (_ : num) : res num := Raise Unmodelled.
Definition unmodelled2 (_ _ : num) : res num := Raise Unmodelled.
Definition catch_res (r : res num) (x : exn) (h : res num) : res num :=
  match r with Raise e => if exn_eqb e x then h else r | _ => r end.
(* the result algebra of Num.v: values and exceptions; libm is outside Num.v *)
Definition num_alg : ralg :=
  {| R := res num; ret_ := Ok; raise_ := Raise; catch_ := catch_res; ext_pow := py_pow_num;
     ext_log := unmodelled2; ext_sqrt := unmodelled1; ext_sin := unmodelled1; ext_cos := unmodelled1;
     ext_tan := unmodelled1 |}.

Ltac open_guards :=
  rewrite <- ?is_fractional_is_source;
  unfold bindR, n_lt, n_le, n_eq, n_ne, n_gt, n_ge;
  cbn [R ret_ raise_ catch_ ext_pow ext_log ext_sqrt ext_sin ext_cos ext_tan toQ];
  rewrite ?is_true_b2n, ?truthy_b2n;
  change (inject_Z 0) with 0; change (inject_Z 1) with 1.

Lemma strict_pow_is_source a b : n_pow a b = g_strict_pow num_alg a b.
Proof.
  unfold g_strict_pow. open_guards. cbn [num_alg ext_pow raise_].
  destruct b as [n|q|q].
  - rewrite is_integral_int. cbn [negb andb orb]. reflexivity.
  - cbn [n_pow py_pow_num toQ]. guard_atoms.
  - cbn [n_pow py_pow_num toQ]. guard_atoms.
Qed.

(* ======================================================================== (2) per operator, through the registry *)
Local Open Scope string_scope.

Definition kind_of (n : num) : nat :=
  match n with
  | NInt _ => Dispatch.kind_ix "int" | NFrac _ => Dispatch.kind_ix "Fraction" | NFlt _ => Dispatch.kind_ix "float"
  end.
(* lookup_function + get_closest_match on the regenerated registry *)
Definition impl_of (name : string) (ks : list nat) : res string :=
  match Dispatch.dispatch_decision name ks [] with
  | Dispatch.Run i _ => Ok i
  | Dispatch.Reject e => Raise e
  end.
(* header.f( *args): the selected body *)
Definition ka_body2 (name : string) (a b : num) : res num :=
  bind (impl_of name [kind_of a; kind_of b]) (fun i =>
  match Dispatch.assoc i (g_impl2 num_alg) with Some f => f a b | None => Raise Unmodelled end).
Definition ka_body1 (name : string) (a : num) : res num :=
  bind (impl_of name [kind_of a]) (fun i =>
  match Dispatch.assoc i (g_impl1 num_alg) with Some f => f a | None => Raise Unmodelled end).
(* dispatch(name, args) on numbers: simplify_type(header.f( *args)) *)
Definition ka_binop (name : string) (a b : num) : res num := bind (ka_body2 name a b) g_simplify_number.
Definition ka_unop (name : string) (a : num) : res num := bind (ka_body1 name a) g_simplify_number.

Ltac resolve_dispatch :=
  repeat match goal with
         | |- context [impl_of ?n ?ks] =>
             let r := eval vm_compute in (impl_of n ks) in
             replace (impl_of n ks) with r by (vm_compute; reflexivity)
         end.

Lemma bindR_res (r : res num) : bindR num_alg r (ret_ num_alg) = r.
Proof. destruct r; reflexivity. Qed.

Ltac run_dispatch :=
  unfold ka_binop, ka_unop, ka_body2, ka_body1; cbn [kind_of]; resolve_dispatch;
  cbn [bind Dispatch.assoc g_impl2 g_impl1 String.eqb Ascii.eqb Bool.eqb];
  rewrite ?bindR_res; cbn [R ret_ num_alg bind].

Definition binop_sym (o : binop) : string :=
  match o with Add => "+" | Sub => "-" | Mul => "*" | Div => "/" | Mod => "%" | Pow => "^" end.
Definition unop_sym (o : unop) : string :=
  match o with UNeg => "-" | UPos => "+" | UAbs => "abs" | UFloor => "floor" | UCeil => "ceil"
             | URound => "round" | UInt => "int" end.

Lemma simplify_lift2 f a b : is_flt a || is_flt b = false ->
  g_simplify_number (p_lift2 f a b) = Ok (lift2 f a b).
Proof. intro H. unfold p_lift2, lift2. rewrite H. symmetry. apply norm_is_source. Qed.

(* + - * / % on ints and Fractions *)
Lemma binop_is_source o a b : o <> Pow -> exact a -> exact b ->
  binop_eval o a b = ka_binop (binop_sym o) a b.
Proof.
  intros NP Ea Eb. unfold exact in Ea, Eb.
  destruct o; try congruence; clear NP; cbn [binop_eval binop_sym];
    destruct a as [x|p|p]; try discriminate Ea; destruct b as [y|q|q]; try discriminate Eb;
    run_dispatch.
  all: try apply fraction_divide_is_source.
  all: unfold n_add, n_sub, n_mul, n_div, n_mod, p_add, p_sub, p_mul, p_truediv, p_mod;
    try match goal with |- context [Qis_zero ?t] => destruct (Qis_zero t) end; try reflexivity;
    cbn [bind]; rewrite simplify_lift2 by reflexivity; reflexivity.
Qed.

(* ^ : the body the registry selects is strict_pow, for all operands (Num.v does not apply the final
   simplification to a float power, so the statement stops at the body) *)
Lemma pow_is_source a b : binop_eval Pow a b = ka_body2 "^" a b.
Proof.
  cbn [binop_eval]. rewrite strict_pow_is_source. unfold ka_body2.
  destruct a, b; cbn [kind_of]; resolve_dispatch; reflexivity.
Qed.

(* the comparisons, all operands *)
Inductive cmpop := OLt | OLe | OEq | ONe | OGt | OGe.
Definition cmp_sym (c : cmpop) : string :=
  match c with OLt => "<" | OLe => "<=" | OEq => "==" | ONe => "!=" | OGt => ">" | OGe => ">=" end.
Definition cmp_model (c : cmpop) : num -> num -> res num :=
  match c with OLt => n_lt | OLe => n_le | OEq => n_eq | ONe => n_ne | OGt => n_gt | OGe => n_ge end.

Lemma cmp_is_source c a b : cmp_model c a b = ka_binop (cmp_sym c) a b.
Proof.
  destruct c; cbn [cmp_model cmp_sym]; destruct a, b; run_dispatch;
    rewrite <- intify_is_source;
    unfold n_lt, n_le, n_eq, n_ne, n_gt, n_ge, p_lt, p_le, p_eq, p_ne, p_gt, p_ge, b2n;
    match goal with |- context [if ?c then _ else _] => destruct c end; reflexivity.
Qed.

(* the unary operators of C01 on ints and Fractions *)
Lemma unop_is_source o a : canonical a -> exact a -> unop_eval o a = ka_unop (unop_sym o) a.
Proof.
  intros C E. pose proof (canonical_reduced a C E) as Rd.
  destruct o; cbn [unop_eval unop_sym]; destruct a as [z|q|q]; try discriminate E; run_dispatch;
    try reflexivity; cbn [reduced] in Rd.
  - (* neg *) unfold n_neg, p_neg. rewrite <- (simplify_number_is_source (NFrac (- q))).
    + cbn [simp]. reflexivity.
    + cbn [reduced]. rewrite Qred_opp, Rd. reflexivity.
  - (* pos *) unfold n_pos, p_pos. rewrite <- (simplify_number_is_source (NFrac q) Rd).
    rewrite (simp_canonical _ C E). reflexivity.
  - (* abs *) unfold n_abs, p_abs, abs_num. rewrite <- (simplify_number_is_source (NFrac (Qabs q))).
    + reflexivity.
    + cbn [reduced]. apply Qred_abs, Rd.
Qed.

(* the number-level operations the translation uses for dispatch(...) inside bodies are these same bodies *)
Lemma dispatch_int_is_source a : n_int a = ka_unop "int" a.
Proof. destruct a; run_dispatch; reflexivity. Qed.

Print Assumptions is_true_is_source.
Print Assumptions simplify_number_is_source.
Print Assumptions norm_is_source.
Print Assumptions fraction_divide_is_source.
Print Assumptions intify_is_source.
Print Assumptions is_fractional_is_source.
Print Assumptions strict_pow_is_source.
Print Assumptions binop_is_source.
Print Assumptions pow_is_source.
Print Assumptions cmp_is_source.
Print Assumptions unop_is_source.
Print Assumptions dispatch_int_is_source.
