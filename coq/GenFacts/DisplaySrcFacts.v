(* DisplaySrcFacts.v — the hand-written display model (Model/Display.v, property C15) IS the source:
   Gen/GenDisplaySrc.v is regenerated on every run from the Python AST of display_result,
   stringify_result, precisionify_float, precisionify_frac, prettify_frac, default_unit_format
   (ka/interpret.py), QuantityVector.prettified / Vector.__iter__ (ka/units.py) and Array.__len__ /
   Instant.__str__ (ka/types.py) by harness/trans_display.py, and every model definition is proved
   equal to the generated one.  A change of a branch, of the order in which things are printed, of
   a bracket rule, of the sign handling or of the precision in the source breaks one of these
   lemmas (or leaves the generated file without the definition: fail closed).

   Shape of the statements.  The generated functions work on the Python value universe [pyval]
   of the generated file and return [res string]; the model works on [value].  [inj] embeds the
   model's values (a quantity's dimension vector carries the live base-unit names, as every
   QuantityVector built from the quantity space does).  A model function f is stated
   g_f (inj args) = Ok (f args).  display_result's Gallina result is the text it writes; the
   model's [display] is that text without the final newline, so both values of `newline` are
   covered.  Fractions are canonical ([wf]: in lowest terms with a denominator above 1 — Ka
   simplifies n/1 to an int), which is the hypothesis of C15_fraction_text itself; Python's
   str(Fraction) prints "n" for n/1 where the model's frac_text prints "n/1". *)
From Coq Require Import Lia ZArith QArith Qabs Qreduction Qcanon String List Ascii Bool.
From Ka Require Import Model.Num Model.Display Gen.GenUnits Gen.GenDisplaySrc.
Import ListNotations.
Local Open Scope string_scope.

(* ------------------------------------------------------------------ generalities *)
Lemma app_nil_r_s s : s ++ "" = s.
Proof. induction s as [|c s IH]; cbn; [reflexivity | now rewrite IH]. Qed.
Lemma app_assoc_s a b c : (a ++ b) ++ c = a ++ (b ++ c).
Proof. induction a as [|x a IH]; cbn; [reflexivity | now rewrite IH]. Qed.

Lemma bind_Ok_r {A} (r : res A) : (do x <- r; Ok x) = r.
Proof. destruct r; reflexivity. Qed.

Lemma mapM_pure {A B} (f : A -> res B) (g : A -> B) l :
  (forall x, f x = Ok (g x)) -> mapM f l = Ok (map g l).
Proof. intro H. induction l as [|x l IH]; cbn; [reflexivity | now rewrite H, IH]. Qed.

Lemma mapM_Forall {A B C} (P : A -> Prop) (h : A -> B) (f : B -> res C) (g : A -> C) l :
  Forall (fun x => P x -> f (h x) = Ok (g x)) l -> Forall P l ->
  mapM f (map h l) = Ok (map g l).
Proof.
  induction 1 as [|x l Hx _ IH]; intro Hw; cbn; [reflexivity|].
  inversion Hw as [|? ? Hpx Hpl]; subst. rewrite (Hx Hpx). cbn [bind]. now rewrite (IH Hpl).
Qed.

(* ------------------------------------------------------------------ the embedding of model values *)
Definition inj_num (n : num) : pyval :=
  match n with
  | NInt z => PInt z
  | NFrac q => PFrac q
  | NFlt x => PFloat (PF x)
  end.
Definition qv_of (dims : list Z) : qvec := mkqv dims base_units.
Fixpoint inj (v : value) : pyval :=
  match v with
  | VNum n => inj_num n
  | VQty mag dims => PQuantity (inj_num mag) (qv_of dims)
  | VArr l => PArray (map inj l)
  | VIvl a b => PInterval (inj a) (inj b)
  | VStr s => PStr s
  | VInst y mo d h mi s us tz => PInstant (mkdt y mo d h mi s us tz)
  end.

(* canonical fractions: what the evaluator delivers (simplify_number turns n/1 into an int) *)
Definition canon (q : Q) : Prop := Qred q = q /\ (1 < Qden q)%positive.
Definition wf_num (n : num) : Prop := match n with NFrac q => canon q | _ => True end.
Fixpoint wf (v : value) : Prop :=
  match v with
  | VNum n => wf_num n
  | VQty mag _ => wf_num mag
  | VArr l => (fix all (l : list value) : Prop := match l with [] => True | x :: r => wf x /\ all r end) l
  | VIvl a b => wf a /\ wf b
  | _ => True
  end.
Lemma wf_arr l : wf (VArr l) <-> Forall wf l.
Proof.
  induction l as [|x l IH]; [split; constructor|].
  split.
  - intros [Hx Hl]. constructor; [exact Hx | now apply IH].
  - intro H. inversion H; subst. split; [assumption | now apply IH].
Qed.

Section ValueInd.
  Variable P : value -> Prop.
  Hypothesis HNum : forall n, P (VNum n).
  Hypothesis HQty : forall mag dims, P (VQty mag dims).
  Hypothesis HArr : forall l, Forall P l -> P (VArr l).
  Hypothesis HIvl : forall a b, P a -> P b -> P (VIvl a b).
  Hypothesis HStr : forall s, P (VStr s).
  Hypothesis HInst : forall y mo d h mi s us tz, P (VInst y mo d h mi s us tz).
  Fixpoint value_nested_ind (v : value) : P v :=
    match v with
    | VNum n => HNum n
    | VQty mag dims => HQty mag dims
    | VArr l => HArr l ((fix go (l : list value) : Forall P l :=
                           match l with
                           | [] => Forall_nil P
                           | x :: r => Forall_cons x (value_nested_ind x) (go r)
                           end) l)
    | VIvl a b => HIvl a b (value_nested_ind a) (value_nested_ind b)
    | VStr s => HStr s
    | VInst y mo d h mi s us tz => HInst y mo d h mi s us tz
    end.
End ValueInd.

(* ------------------------------------------------------------------ units.py: the unit text *)
Lemma vector_iter_is_source xs : g_Vector___iter__ xs = Ok xs.
Proof. reflexivity. Qed.

Lemma unit_words_is_source names dims :
  map (fun '(exp, name) => if negb (exp =? 1)%Z then name ++ "^" ++ show_Z exp else name)
      (filter (fun '(exp, name) => negb (exp =? 0)%Z) (combine dims names))
  = unit_words names dims.
Proof.
  revert names. induction dims as [|e es IH]; intros [|n ns]; try reflexivity.
  cbn [combine filter unit_words]. destruct (e =? 0)%Z; cbn [negb]; [apply IH|].
  cbn [map]. rewrite IH. unfold unit_word. destruct (e =? 1)%Z; reflexivity.
Qed.

(* QuantityVector.prettified, for every vector of names *)
Lemma prettified_names_is_source names dims :
  g_QuantityVector_prettified (mkqv dims names) = Ok (String.concat " " (unit_words names dims)).
Proof.
  unfold g_QuantityVector_prettified. cbn [qv_v qv_names]. rewrite vector_iter_is_source. cbn [bind].
  rewrite (mapM_pure _ (fun '(exp, name) => if negb (exp =? 1)%Z then name ++ "^" ++ show_Z exp else name)).
  - cbn [bind]. now rewrite unit_words_is_source.
  - intros [e n]. reflexivity.
Qed.
Lemma prettified_is_source dims : g_QuantityVector_prettified (qv_of dims) = Ok (prettified dims).
Proof. apply prettified_names_is_source. Qed.

(* interpret.py default_unit_format *)
Lemma default_unit_format_is_source dims : g_default_unit_format (qv_of dims) = Ok (prettified dims).
Proof. unfold g_default_unit_format. rewrite bind_Ok_r. apply prettified_is_source. Qed.

(* ------------------------------------------------------------------ types.py helpers *)
Lemma array_len_is_source l : g_Array___len__ l = Ok (Z.of_nat (List.length l)).
Proof. reflexivity. Qed.
Lemma instant_str_is_source y mo d h mi s us tz :
  g_Instant___str__ (mkdt y mo d h mi s us tz) = Ok (iso_text y mo d h mi s us tz).
Proof. reflexivity. Qed.

Section Facts.
Variable p : Z.

(* ------------------------------------------------------------------ precisionify_float / precisionify_frac *)
Lemma precisionify_float_is_source x : g_precisionify_float p (PF x) = Ok (fmt_g p x).
Proof. reflexivity. Qed.

Lemma Q_dec_quotient q : (inject_Z (Qnum q) / inject_Z (Zpos (Qden q)))%Q = q.
Proof.
  destruct q as [n d]. cbn [Qnum Qden]. unfold Qdiv, Qinv, Qmult, inject_Z. cbn [Qnum Qden Pos.mul].
  now rewrite Z.mul_1_r.
Qed.

Lemma fmt_g_zero x : Qeqb x 0 = true -> fmt_g p x = "0".
Proof. unfold Qeqb, fmt_g. destruct (x ?= 0)%Q; try discriminate. reflexivity. Qed.

(* the parenthesised approximation: float(f) formatted, Decimal division beyond the float range.
   The fallback's `with localcontext() as ctx: ctx.Emax, ctx.Emin = MAX_EMAX, MIN_EMIN` block (accepted by the
   translator in exactly this shape) contributes no term: it only lifts the default context's Overflow /
   Underflow traps, which the exact quotient py_dec_div never had; any other change of the decimal context
   (prec, rounding, ..) leaves g_precisionify_frac undefined and this lemma unprovable. *)
Lemma precisionify_frac_is_source q : g_precisionify_frac p q = Ok (approx_text p q).
Proof.
  unfold g_precisionify_frac, approx_text, py_float_of_frac.
  destruct (float_of_Q q) as [f|].
  - destruct (Qeqb f 0) eqn:E; cbn [andb].
    + destruct (Qltb q 0); cbn [bind]; [reflexivity|].
      rewrite precisionify_float_is_source. cbn [bind]. now rewrite (fmt_g_zero f E).
    + cbn [bind]. rewrite precisionify_float_is_source. reflexivity.
  - cbn [bind]. unfold py_dec_div. cbn [Z.eqb bind]. rewrite Q_dec_quotient. reflexivity.
Qed.

(* ------------------------------------------------------------------ prettify_frac *)
Lemma Qleb_0_num q : Qleb (inject_Z 0) q = (0 <=? Qnum q)%Z.
Proof.
  unfold Qleb, Qcompare, Z.leb. cbn [inject_Z Qnum Qden Z.mul]. now rewrite Z.mul_1_r.
Qed.

Lemma str_frac_canon q : (1 < Qden q)%positive -> py_str_frac q = frac_text q.
Proof. intro H. unfold py_str_frac. destruct (Pos.eqb_spec (Qden q) 1) as [E|E]; [lia | reflexivity]. Qed.

(* abs(f) - whole_part as Python's Fraction arithmetic delivers it *)
Lemma remainder_fraction q w :
  Qred q = q -> Qred (Qabs q - inject_Z w)%Q = Qmake (Z.abs (Qnum q) - w * Zpos (Qden q)) (Qden q).
Proof.
  intro Hred. pose proof (Qred_identity2 q Hred) as Hg. destruct q as [n d]. cbn [Qnum Qden] in *.
  transitivity (Qred (Qmake (Z.abs n - w * Zpos d) d)).
  - apply Qred_complete. unfold Qabs, Qminus, Qplus, Qopp, inject_Z, Qeq. cbn [Qnum Qden]. lia.
  - apply Qred_identity. cbn [Qnum Qden].
    replace (Z.abs n - w * Zpos d)%Z with (Z.abs n + (- w) * Zpos d)%Z by lia.
    rewrite Z.gcd_comm, Z.gcd_add_mult_diag_r, Z.gcd_comm, Z.gcd_abs_l. exact Hg.
Qed.

Lemma prettify_frac_is_source q b : canon q -> g_prettify_frac q b = Ok (prettify_frac q b).
Proof.
  intros [Hred Hden]. unfold g_prettify_frac, prettify_frac, py_floordiv, bracket.
  cbn [Z.abs Z.eqb bind]. rewrite Qleb_0_num.
  rewrite (remainder_fraction q _ Hred), (str_frac_canon q Hden).
  rewrite (str_frac_canon (Qmake _ (Qden q)) Hden). unfold frac_text. cbn [Qnum Qden negb].
  destruct b; destruct (0 <? Z.abs (Qnum q) / Zpos (Qden q))%Z; reflexivity.
Qed.

(* ------------------------------------------------------------------ stringify_result *)
Lemma stringify_num_is_source n bf :
  wf_num n -> g_stringify_result p (inj_num n) bf = Ok (num_text p n bf).
Proof.
  destruct n as [z|q|x]; intro Hw; cbn [inj_num g_stringify_result num_text].
  - reflexivity.
  - destruct Hw as [_ Hden]. rewrite (str_frac_canon q Hden). unfold bracket. destruct bf; reflexivity.
  - reflexivity.
Qed.

Theorem stringify_is_source : forall v bf, wf v -> g_stringify_result p (inj v) bf = Ok (stringify p bf v).
Proof.
  induction v as [n|mag dims|l IH|a b IHa IHb|s|y mo d h mi s us tz] using value_nested_ind; intros bf Hw.
  - apply stringify_num_is_source. exact Hw.
  - cbn [inj g_stringify_result stringify]. rewrite (stringify_num_is_source mag bf Hw). cbn [bind].
    rewrite prettified_is_source. cbn [bind]. now rewrite app_assoc_s.
  - cbn [inj g_stringify_result stringify].
    rewrite (mapM_Forall wf inj _ (stringify p bf) l).
    + reflexivity.
    + clear Hw. induction IH as [|x l Hx _ IHl]; constructor; [|exact IHl].
      intro Hwx. rewrite bind_Ok_r. apply Hx. exact Hwx.
    + now apply wf_arr.
  - destruct Hw as [Ha Hb]. cbn [inj g_stringify_result stringify].
    rewrite (IHa false Ha), (IHb false Hb). cbn [bind]. rewrite !app_assoc_s. reflexivity.
  - reflexivity.
  - reflexivity.
Qed.

(* ------------------------------------------------------------------ display_result *)
Definition ending (newline : bool) : string := if newline then nl else "".

Lemma display_num_is_source n bf newline :
  wf_num n ->
  g_display_result p (inj_num n) bf newline g_default_unit_format
  = Ok (display p bf (VNum n) ++ ending newline).
Proof.
  destruct n as [z|q|x]; intro Hw; cbn [inj_num g_display_result display num_text].
  - reflexivity.
  - rewrite (prettify_frac_is_source q false Hw). cbn [bind]. rewrite precisionify_frac_is_source. cbn [bind].
    unfold ending. rewrite !app_assoc_s. reflexivity.
  - reflexivity.
Qed.

(* the loop over an array's elements: element texts separated by ", " *)
Lemma for_enum_is_concat (body : Z -> pyval -> res string) N : forall l i,
  Forall wf l -> N = (i + Z.of_nat (List.length l))%Z ->
  (forall j x, wf x -> body j (inj x) = Ok (stringify p false x ++ (if (j <? N - 1)%Z then ", " else ""))) ->
  for_enum_from body i (map inj l) = Ok (String.concat ", " (map (stringify p false) l)).
Proof.
  induction l as [|x r IH]; intros i Hw HN Hbody; [reflexivity|].
  inversion Hw as [|? ? Hx Hr]; subst. cbn [map for_enum_from]. rewrite (Hbody i x Hx). cbn [bind].
  rewrite (IH (i + 1)%Z Hr); [|cbn [List.length]; lia|exact Hbody]. cbn [bind].
  destruct r as [|y r'].
  - cbn [List.length map String.concat]. destruct (Z.ltb_spec i (i + Z.of_nat 1 - 1)); [lia|].
    now rewrite !app_nil_r_s.
  - cbn [List.length] in *. destruct (Z.ltb_spec i (i + Z.of_nat (S (S (List.length r'))) - 1)); [|lia].
    cbn [map String.concat]. now rewrite app_assoc_s.
Qed.

Theorem display_is_source : forall v bf newline, wf v ->
  g_display_result p (inj v) bf newline g_default_unit_format = Ok (display p bf v ++ ending newline).
Proof.
  intros v bf newline Hw. destruct v as [n|mag dims|l|a b|s|y mo d h mi s us tz].
  - apply display_num_is_source. exact Hw.
  - cbn [inj g_display_result]. destruct mag as [z|q|x]; cbn [inj_num].
    + cbn [g_display_result py_str bind]. rewrite ?precisionify_float_is_source. cbn [bind].
      rewrite default_unit_format_is_source. cbn [bind display num_text].
      unfold ending. rewrite ?app_nil_r_s, !app_assoc_s. reflexivity.
    + rewrite (prettify_frac_is_source q bf Hw). cbn [bind]. rewrite default_unit_format_is_source. cbn [bind].
      rewrite precisionify_frac_is_source. cbn [bind display]. unfold ending. rewrite !app_assoc_s. reflexivity.
    + cbn [g_display_result py_str bind]. rewrite ?precisionify_float_is_source. cbn [bind].
      rewrite default_unit_format_is_source. cbn [bind display num_text].
      unfold ending. rewrite ?app_nil_r_s, !app_assoc_s. reflexivity.
  - change (inj (VArr l)) with (PArray (map inj l)). cbn [g_display_result].
    change (PArray (map inj l)) with (inj (VArr l)). rewrite (stringify_is_source (VArr l) false Hw).
    reflexivity.
  - change (inj (VIvl a b)) with (PInterval (inj a) (inj b)). cbn [g_display_result].
    change (PInterval (inj a) (inj b)) with (inj (VIvl a b)). rewrite (stringify_is_source (VIvl a b) false Hw).
    reflexivity.
  - reflexivity.
  - reflexivity.
Qed.

(* the two uses: execute() prints with the newline; a quantity's magnitude is printed without *)
Corollary display_line_is_source v bf : wf v ->
  g_display_result p (inj v) bf true g_default_unit_format = Ok (display p bf v ++ nl).
Proof. intro Hw. apply (display_is_source v bf true Hw). Qed.
Corollary display_text_is_source v bf : wf v ->
  g_display_result p (inj v) bf false g_default_unit_format = Ok (display p bf v).
Proof. intro Hw. rewrite (display_is_source v bf false Hw). unfold ending. now rewrite app_nil_r_s. Qed.

(* the GUI's re-entry text *)
Corollary reentry_is_source v : wf v -> g_stringify_result p (inj v) true = Ok (reentry_text p v).
Proof. intro Hw. apply (stringify_is_source v true Hw). Qed.

End Facts.

Print Assumptions vector_iter_is_source.
Print Assumptions prettified_names_is_source.
Print Assumptions prettified_is_source.
Print Assumptions default_unit_format_is_source.
Print Assumptions array_len_is_source.
Print Assumptions instant_str_is_source.
Print Assumptions precisionify_float_is_source.
Print Assumptions precisionify_frac_is_source.
Print Assumptions prettify_frac_is_source.
Print Assumptions stringify_num_is_source.
Print Assumptions stringify_is_source.
Print Assumptions display_num_is_source.
Print Assumptions display_is_source.
Print Assumptions display_line_is_source.
Print Assumptions display_text_is_source.
Print Assumptions reentry_is_source.
