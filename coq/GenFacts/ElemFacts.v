(* ElemFacts.v — facts about the REGENERATED tables that property C16 leans on, re-proved by
   computation on every run:
   (1) every exception class the modelled elementary functions can end in is caught by
       eval_parse_tree/execute() and printed as a diagnostic with status 1 (Gen/GenInterp.v);
       ValueError is not (which is why the log underflow finding escapes);
   (2) in the live registry (Gen/GenFunctions.v) the overloads of each C16 function that a
       number, a lazy combinatoric or a quantity can reach are exactly the ones Model/Elem.v
       dispatches on: the body on (Number,)*arity and, for one argument, quantity_function[f=body]
       on (Quantity,). *)
From Coq Require Import Bool.
From Ka Require Import Model.Elem Model.Exec Gen.GenFunctions Proofs.ElemProofs.
Local Open Scope string_scope.

Definition diagnosed (e : exn) : bool :=
  match classify_eval (show_exn e) with Diagnosed s => String.eqb s "1" | _ => false end.

Lemma elem_classes_diagnosed_true : forallb diagnosed elem_classes = true.
Proof. vm_compute. reflexivity. Qed.

Lemma elem_classes_diagnosed e : In e elem_classes -> classify_eval (show_exn e) = Diagnosed "1".
Proof.
  intro I. pose proof (proj1 (forallb_forall _ _) elem_classes_diagnosed_true e I) as D.
  unfold diagnosed in D. destruct (classify_eval (show_exn e)) as [|s| |c]; try discriminate.
  apply String.eqb_eq in D. subst s. reflexivity.
Qed.

Lemma value_error_escapes : classify_eval (show_exn ValueError) = Escaped "ValueError".
Proof. vm_compute. reflexivity. Qed.

(* every error outcome of the modelled dispatch is a diagnosed one *)
Lemma elem_errors_diagnosed ext : ext_raises_only_overflow ext ->
  forall f args e, Forall resolvable args -> elem ext f args = EErr e ->
  In e elem_classes /\ classify_eval (show_exn e) = Diagnosed "1".
Proof.
  intros HX f args e R H. pose proof (elem_errors_in_classes ext HX f args e R H) as I.
  split; [exact I | exact (elem_classes_diagnosed e I)].
Qed.

(* ---- the registry *)
Definition elem_table : list (string * string * nat) := [
  ("sin", "math.sin", 1%nat); ("cos", "math.cos", 1%nat); ("tan", "math.tan", 1%nat);
  ("sqrt", "ka.functions.ka_sqrt", 1%nat); ("ln", "ka.functions.ka_ln", 1%nat);
  ("log10", "ka.functions.ka_log10", 1%nat); ("log2", "ka.functions.ka_log2", 1%nat);
  ("abs", "builtins.abs", 1%nat); ("floor", "math.floor", 1%nat); ("ceil", "math.ceil", 1%nat);
  ("round", "builtins.round", 1%nat); ("int", "class:builtins.int", 1%nat);
  ("float", "class:builtins.float", 1%nat);
  ("log", "ka.functions.ka_log", 2%nat); ("^", "ka.functions.strict_pow", 2%nat)].

Fixpoint index_of (s : string) (l : list string) (i : nat) : option nat :=
  match l with [] => None | x :: r => if String.eqb s x then Some i else index_of s r (S i) end.
Definition kind_ix (s : string) : nat := match index_of s kind_names 0 with Some i => i | None => 999 end.
Definition type_ix (s : string) : nat := match index_of s type_names 0 with Some i => i | None => 999 end.

(* the runtime classes C16 quantifies over *)
Definition c16_kinds : list nat := map kind_ix ["int"; "float"; "Fraction"; "Combinatoric"; "Quantity"].
Definition type_reachable (t : nat) : bool :=
  existsb (fun k => nth t (nth k isinstance_tbl []) false) c16_kinds.
Definition sig_reachable (g : gsig) : bool :=
  forallb type_reachable (g_args g) && match g_vararg g with None => true | Some t => type_reachable t end.

Fixpoint find_sigs (name : string) (l : list (string * list gsig)) : list gsig :=
  match l with [] => [] | (n, s) :: r => if String.eqb n name then s else find_sigs name r end.

Definition nat_list_eqb (a b : list nat) : bool :=
  Nat.eqb (List.length a) (List.length b) && forallb (fun p => Nat.eqb (fst p) (snd p)) (combine a b).
Definition ov_eqb (a b : string * list nat) : bool :=
  String.eqb (fst a) (fst b) && nat_list_eqb (snd a) (snd b).
Definition ov_list_eqb (a b : list (string * list nat)) : bool :=
  Nat.eqb (List.length a) (List.length b) && forallb (fun p => ov_eqb (fst p) (snd p)) (combine a b).

Definition expected_overloads (impl : string) (ar : nat) : list (string * list nat) :=
  (impl, repeat (type_ix "Number") ar) ::
  (if Nat.eqb ar 1
   then [("ka.functions.register_numeric_function.<locals>.quantity_function[f=" ++ impl ++ "]",
          [type_ix "Quantity"])]
   else []).

Definition elem_registry_ok : bool :=
  forallb (fun e => let '(name, impl, ar) := e in
             ov_list_eqb (map (fun g => (g_impl g, g_args g)) (filter sig_reachable (find_sigs name registry)))
                         (expected_overloads impl ar))
          elem_table.

Lemma elem_registry_ok_true : elem_registry_ok = true.
Proof. vm_compute. reflexivity. Qed.
