(* Facts about the regenerated registry, re-proved by computation on every run. *)
From Ka Require Import Model.Dispatch.

Lemma registry_ok_true : registry_ok = true.
Proof. vm_compute. reflexivity. Qed.

Lemma varargs_ok_true : varargs_ok = true.
Proof. vm_compute. reflexivity. Qed.

Lemma widening_ok_true : widening_ok = true.
Proof. vm_compute. reflexivity. Qed.

Lemma no_narrowing_ok_true : no_narrowing_ok = true.
Proof. vm_compute. reflexivity. Qed.
