(* ProbSrcFacts.v — the hand-written definitions of Model/Prob.v ARE the source's.

   Gen/GenProbSrc.v is regenerated on every run from the Python AST of src/ka/probability.py, the
   probability section of src/ka/functions.py and utils.choose / utils.factorial
   (harness/trans_prob.py; the trusted construct mapping is in the header of the generated file).
   Every lemma here says: the model's definition equals the translation of the source, for all
   arguments.  The generated functions return [res T] (Python's "/" , "//" and "**" can raise
   ZeroDivisionError), the model's pmf/cdf functions return plain Q, so the statements read
   [g_f args = Ok (model_f args)]: the source raises nothing and returns the model's value.  Where
   the model reduces a value with Qred, or sums over a different but equivalent window, the value is
   equal up to == (the equality of Q): [okq r v] says r = Ok v' for some v' == v.

   A change of meaning in a translated function breaks its lemma (or leaves GenProbSrc without the
   definition: fail closed). *)
From Coq Require Import Lia Lqa QArith Qround Qpower Qminmax Qfield Bool.
From Ka Require Import Model.Prob Proofs.NumProofs Proofs.ProbProofs Gen.GenProbSrc.

Open Scope Q_scope.

(* r delivers a number equal to v *)
Definition okq (r : res Q) (v : Q) : Prop := exists v', r = Ok v' /\ v' == v.
Lemma okq_ok v : okq (Ok v) v.
Proof. exists v. split; reflexivity. Qed.

(* ------------------------------------------------------------------------- *)
(* case analysis on every comparison; Z facts by lia.  Proofs are first tried by conversion and, if
   the source was rewritten into an equivalent shape, by this analysis. *)
Ltac zcases :=
  repeat match goal with
         | |- context [(?x <? ?y)%Z] => destruct (Z.ltb_spec x y)
         | |- context [(?x <=? ?y)%Z] => destruct (Z.leb_spec x y)
         | |- context [(?x >? ?y)%Z] => rewrite (Z.gtb_ltb x y)
         | |- context [(?x >=? ?y)%Z] => rewrite (Z.geb_leb x y)
         | |- context [(?x =? ?y)%Z] => destruct (Z.eqb_spec x y)
         end.
Ltac qcases :=
  repeat match goal with
         | |- context [Qltb ?x ?y] => destruct (Qltb x y) eqn:?
         | |- context [Qleb ?x ?y] => destruct (Qleb x y) eqn:?
         | |- context [Qeqb ?x ?y] => destruct (Qeqb x y) eqn:?
         | |- context [Qis_zero ?x] => destruct (Qis_zero x) eqn:?
         end.
Ltac fin := cbn [negb andb orb bind]; try reflexivity; try (exfalso; lia); try congruence.
Ltac same := first [ reflexivity | intros; zcases; fin; qcases; fin ].
Ltac same_init :=
  first [ reflexivity
        | intros; cbn [make_rv];
          unfold g_Binomial_init, g_Poisson_init, g_Geometric_init, g_Bernoulli_init, g_UniformInt_init,
            g_Exponential_init, g_Uniform_init, g_Gaussian_init, invalid;
          zcases; fin; qcases; fin ].

Lemma Qis_zero_false q : ~ q == 0 -> Qis_zero q = false.
Proof. intro H. destruct (Qis_zero q) eqn:E; [|reflexivity]. apply Qis_zero_spec in E. contradiction. Qed.
Lemma Qis_zero_iZ k : (k <> 0)%Z -> Qis_zero (inject_Z k) = false.
Proof. intro H. unfold Qis_zero. cbn. apply Z.eqb_neq. exact H. Qed.

Lemma pypow_nonneg a n : (0 <= n)%Z -> pypow a n = Ok (a ^ n).
Proof. intro H. unfold pypow. destruct (Z.ltb_spec n 0); [lia|]. reflexivity. Qed.
Lemma pydiv_nz a b : Qis_zero b = false -> pydiv a b = Ok (a / b).
Proof. intro H. unfold pydiv. rewrite H. reflexivity. Qed.

(* ------------------------------------------------------------------------- *)
(* utils.factorial, utils.choose *)
Lemma for_n_fact m :
  for_n (fun k result => (result * k)%Z) 2%Z m 1%Z = fact_loop (S m).
Proof.
  induction m as [|m IH]; [reflexivity|].
  cbn [for_n]. rewrite IH. rewrite (fact_loop_S (S m)). f_equal. lia.
Qed.

Lemma factorial_is_source : forall n, g_factorial n = Ok (factorial n).
Proof.
  intro n. unfold g_factorial, factorial, for_range.
  destruct (Z.ltb_spec n 2) as [H|H]; [reflexivity|].
  cbv zeta. rewrite for_n_fact. do 2 f_equal. lia.
Qed.

Lemma for_n_choose M m :
  for_n (fun j '(numerator, denominator) => ((numerator * (M - j))%Z, (denominator * j)%Z)) 1%Z m (1%Z, 1%Z)
  = choose_loop M m.
Proof.
  induction m as [|m IH]; [reflexivity|].
  cbn [for_n choose_loop]. rewrite IH. destruct (choose_loop M m) as [a b].
  replace (1 + Z.of_nat m)%Z with (Z.of_nat (S m)) by lia. reflexivity.
Qed.

Lemma choose_is_source : forall n k, g_choose n k = Ok (choose n k).
Proof.
  intros n k. unfold g_choose, choose, for_range.
  destruct ((k >? n)%Z || (n <? 0)%Z || (k <? 0)%Z) eqn:G; [reflexivity|].
  cbv zeta.
  replace (Z.to_nat (Z.min k (n - k) + 1 - 1)) with (Z.to_nat (Z.min k (n - k))) by (f_equal; lia).
  pose proof (for_n_choose (n + 1) (Z.to_nat (Z.min k (n - k)))) as E. cbv beta in E.
  match goal with |- (let '(_, _) := ?X in _) = _ => change X with
    (for_n (fun j '(numerator, denominator) => ((numerator * (n + 1 - j))%Z, (denominator * j)%Z)) 1%Z
           (Z.to_nat (Z.min k (n - k))) (1%Z, 1%Z)) end.
  rewrite E.
  apply orb_false_iff in G. destruct G as [G G3]. apply orb_false_iff in G. destruct G as [G1 G2].
  rewrite Z.gtb_ltb in G1. apply Z.ltb_ge in G1, G2, G3.
  pose proof (choose_loop_pos (n + 1) (Z.to_nat (Z.min k (n - k))) ltac:(lia)) as [Ha Hb].
  destruct (choose_loop (n + 1) (Z.to_nat (Z.min k (n - k)))) as [a b]. cbn [fst snd] in *.
  unfold pyfloordiv. destruct (Z.eqb_spec b 0); [lia|]. reflexivity.
Qed.

(* ------------------------------------------------------------------------- *)
(* constructors: which parameter values raise InvalidParameterException *)
Lemma Binomial_init_is_source : forall n p, make_rv (Binomial n p) = g_Binomial_init n p.
Proof. same_init. Qed.
Lemma Poisson_init_is_source : forall mu, make_rv (Poisson mu) = g_Poisson_init mu.
Proof. same_init. Qed.
Lemma Geometric_init_is_source : forall p, make_rv (Geometric p) = g_Geometric_init p.
Proof. same_init. Qed.
Lemma Bernoulli_init_is_source : forall p, make_rv (Bernoulli p) = g_Bernoulli_init p.
Proof. same_init. Qed.
Lemma UniformInt_init_is_source : forall lo hi, make_rv (UniformInt lo hi) = g_UniformInt_init lo hi.
Proof. same_init. Qed.
Lemma Exponential_init_is_source : forall lam, make_rv (Exponential lam) = g_Exponential_init lam.
Proof. same_init. Qed.
Lemma Uniform_init_is_source : forall lo hi, make_rv (Uniform lo hi) = g_Uniform_init lo hi.
Proof. same_init. Qed.
Lemma Gaussian_init_is_source : forall mu sd, make_rv (Gaussian mu sd) = g_Gaussian_init mu sd.
Proof. same_init. Qed.
Lemma make_rv_is_source : forall l, make_rv l = g_make_rv l.
Proof.
  intros [n p|mu|p|p|lo hi|lam|lo hi|mu sd]; cbn [g_make_rv];
    [apply Binomial_init_is_source|apply Poisson_init_is_source|apply Geometric_init_is_source
    |apply Bernoulli_init_is_source|apply UniformInt_init_is_source|apply Exponential_init_is_source
    |apply Uniform_init_is_source|apply Gaussian_init_is_source].
Qed.

(* which classes are DiscreteRandomVariables: the model's Disc / Cont split *)
Lemma is_discrete_is_source : forall fo l,
  match rv_of fo l with Disc _ _ => true | Cont _ => false end = g_is_discrete l.
Proof. intros fo [n p|mu|p|p|lo hi|lam|lo hi|mu sd]; reflexivity. Qed.

(* ------------------------------------------------------------------------- *)
(* mean() *)
Lemma mean_is_source : forall l, mean l = g_mean l.
Proof.
  intros [n p|mu|p|p|lo hi|lam|lo hi|mu sd]; cbn [g_mean mean];
    first [ reflexivity
          | unfold g_Binomial_mean, g_Poisson_mean, g_Geometric_mean, g_Bernoulli_mean, g_UniformInt_mean,
              g_Exponential_mean, g_Uniform_mean, g_Gaussian_mean, pydiv; qcases; fin ].
Qed.

(* ------------------------------------------------------------------------- *)
(* Binomial *)
Definition binomial_pmf_raw (n : Z) (p : Q) (x : Z) : Q :=
  if (x <? 0)%Z || (x >? n)%Z then 0
  else inject_Z (choose n x) * p ^ x * (1 - p) ^ (n - x).
Lemma binomial_pmf_raw_eq n p x : binomial_pmf_raw n p x == binomial_pmf n p x.
Proof.
  unfold binomial_pmf_raw, binomial_pmf. destruct ((x <? 0)%Z || (x >? n)%Z); [reflexivity|].
  symmetry. apply Qred_correct.
Qed.
Lemma Binomial_pmf_source_raw : forall n p x, g_Binomial_pmf n p x = Ok (binomial_pmf_raw n p x).
Proof.
  intros n p x. unfold g_Binomial_pmf, binomial_pmf_raw.
  destruct ((x <? 0)%Z || (x >? n)%Z) eqn:G; [reflexivity|].
  apply orb_false_iff in G. destruct G as [G1 G2]. rewrite Z.gtb_ltb in G2. apply Z.ltb_ge in G1, G2.
  rewrite choose_is_source. cbn [bind]. rewrite !pypow_nonneg by lia. reflexivity.
Qed.
Lemma Binomial_pmf_is_source : forall n p x, okq (g_Binomial_pmf n p x) (binomial_pmf n p x).
Proof. intros. exists (binomial_pmf_raw n p x). split; [apply Binomial_pmf_source_raw|apply binomial_pmf_raw_eq]. Qed.

(* sum(): the monadic sum of values that are all delivered is the model's sum *)
Lemma msum_n_ok f h lo n : (forall k, f k = Ok (h k)) -> msum_n f lo n = Ok (sum_n h lo n).
Proof.
  intro H. induction n as [|n IH]; [reflexivity|].
  cbn [msum_n sum_n]. rewrite IH, H. reflexivity.
Qed.
Lemma msumZ_ok f h lo hi : (forall k, f k = Ok (h k)) -> msumZ f lo hi = Ok (sumZ h lo hi).
Proof. intro H. unfold msumZ, sumZ. apply msum_n_ok. exact H. Qed.

(* the source sums up to min(x, n): no mass lies above n *)
Lemma binomial_sum_cut n p x : sumZ (binomial_pmf n p) 0 (Z.min x n) == sumZ (binomial_pmf n p) 0 x.
Proof.
  destruct (Z.le_gt_cases x n) as [H|H]; [rewrite Z.min_l by lia; reflexivity|].
  rewrite Z.min_r by lia.
  destruct (Z.lt_ge_cases n (-1)) as [Hn|Hn].
  - rewrite sumZ_empty by lia. symmetry. apply sumZ_zero. intros k Hk.
    unfold binomial_pmf. destruct (Z.ltb_spec k 0); [reflexivity|]. rewrite Z.gtb_ltb.
    destruct (Z.ltb_spec n k); [reflexivity|lia].
  - rewrite (sumZ_split _ 0 n x) by lia.
    rewrite (sumZ_zero _ (n + 1) x); [ring|]. intros k Hk.
    unfold binomial_pmf. destruct (Z.ltb_spec k 0); [reflexivity|]. rewrite Z.gtb_ltb.
    destruct (Z.ltb_spec n k); [reflexivity|lia].
Qed.
Lemma Binomial_cdf_is_source : forall n p x, okq (g_Binomial_cdf n p x) (binomial_cdf n p x).
Proof.
  intros n p x. unfold g_Binomial_cdf.
  rewrite (msumZ_ok _ (binomial_pmf_raw n p)) by (intro k; apply Binomial_pmf_source_raw).
  eexists. split; [reflexivity|]. unfold binomial_cdf.
  replace (Z.min x n + 1 - 1)%Z with (Z.min x n) by lia.
  rewrite (sumZ_ext _ (binomial_pmf n p)) by (intros; apply binomial_pmf_raw_eq).
  apply binomial_sum_cut.
Qed.

(* ------------------------------------------------------------------------- *)
(* Geometric, Bernoulli, UniformInt: closed forms, which floor/ceil side, which guard *)
Lemma Geometric_pmf_is_source : forall p x, g_Geometric_pmf p x = Ok (geometric_pmf p x).
Proof.
  intros p x. unfold g_Geometric_pmf, geometric_pmf. destruct (Z.ltb_spec x 1); [reflexivity|].
  rewrite pypow_nonneg by lia. reflexivity.
Qed.
Lemma Geometric_cdf_is_source : forall p x, g_Geometric_cdf p x = Ok (geometric_cdf p x).
Proof.
  intros p x. unfold g_Geometric_cdf, geometric_cdf. destruct (Z.ltb_spec x 1); [reflexivity|].
  rewrite pypow_nonneg by lia. reflexivity.
Qed.
Lemma Bernoulli_pmf_is_source : forall p x, g_Bernoulli_pmf p x = Ok (bernoulli_pmf p x).
Proof. intros p x. unfold g_Bernoulli_pmf, bernoulli_pmf. same. Qed.
Lemma Bernoulli_cdf_is_source : forall p x, g_Bernoulli_cdf p x = Ok (bernoulli_cdf p x).
Proof. intros p x. unfold g_Bernoulli_cdf, bernoulli_cdf. same. Qed.
Lemma UniformInt_pmf_is_source : forall lo hi x, g_UniformInt_pmf lo hi x = Ok (uniformint_pmf lo hi x).
Proof.
  intros lo hi x. unfold g_UniformInt_pmf, uniformint_pmf.
  destruct ((x <? lo)%Z || (x >? hi)%Z) eqn:G; [reflexivity|].
  apply orb_false_iff in G. destruct G as [G1 G2]. rewrite Z.gtb_ltb in G2. apply Z.ltb_ge in G1, G2.
  rewrite pydiv_nz by (apply Qis_zero_iZ; lia). reflexivity.
Qed.
Lemma UniformInt_cdf_is_source : forall lo hi x, g_UniformInt_cdf lo hi x = Ok (uniformint_cdf lo hi x).
Proof.
  intros lo hi x. unfold g_UniformInt_cdf, uniformint_cdf.
  destruct (Z.ltb_spec x lo); [reflexivity|]. rewrite Z.geb_leb. destruct (Z.leb_spec hi x); [reflexivity|].
  rewrite pydiv_nz by (apply Qis_zero_iZ; lia). reflexivity.
Qed.

(* ------------------------------------------------------------------------- *)
(* continuous laws; [fo] carries math.exp(-x) and math.erf(x / sqrt 2) exactly as in the model *)
Lemma Exponential_cdf_is_source : forall fo lam x,
  g_Exponential_cdf fo lam x = Ok (exponential_cdf (expneg fo) lam x).
Proof. intros fo lam x. unfold g_Exponential_cdf, exponential_cdf. same. Qed.
Lemma Uniform_cdf_is_source : forall lo hi x, g_Uniform_cdf lo hi x = Ok (uniform_cdf lo hi x).
Proof.
  intros lo hi x. unfold g_Uniform_cdf, uniform_cdf.
  destruct (Qltb x lo) eqn:A; [reflexivity|]. destruct (Qleb hi x) eqn:B; [reflexivity|].
  apply Qltb_ge in A. apply Qleb_gt in B.
  rewrite pydiv_nz by (apply Qis_zero_false; lra). reflexivity.
Qed.
(* the division by stddev*sqrt(2) raises ZeroDivisionError for stddev = 0, which the constructor excludes *)
Lemma Gaussian_cdf_is_source : forall fo mu sd x, valid_params (Gaussian mu sd) ->
  g_Gaussian_cdf fo mu sd x = Ok (gaussian_cdf (erfs fo) mu sd x).
Proof.
  intros fo mu sd x V. cbn [valid_params] in V. unfold g_Gaussian_cdf, gaussian_cdf.
  rewrite (pydiv_nz (x - mu) sd) by (apply Qis_zero_false; lra). reflexivity.
Qed.

(* ------------------------------------------------------------------------- *)
(* Poisson.  The model has the direct formula mu^x e^-mu / x! only; the source switches to
   exp(x log mu - mu - lgamma(x+1)) when x > 100 or mu > 100 (kernels k_exp, k_log, k_lgamma, which
   the model idealises away).  The equality is for the range of the direct formula. *)
Lemma Poisson_pmf_is_source : forall fo xk mu x, (x <= 100)%Z -> mu <= 100 ->
  okq (g_Poisson_pmf fo xk mu x) (poisson_pmf mu (expneg fo mu) x).
Proof.
  intros fo xk mu x Hx Hmu. unfold g_Poisson_pmf, poisson_pmf.
  destruct (Z.ltb_spec x 0); [apply okq_ok|].
  rewrite Z.gtb_ltb. destruct (Z.ltb_spec 100 x); [lia|].
  assert (Qltb 100 mu = false) as -> by (apply Qltb_ge; exact Hmu).
  cbn [orb]. rewrite pypow_nonneg by lia. cbn [bind]. rewrite factorial_is_source. cbn [bind].
  pose proof (factorial_pos x).
  rewrite pydiv_nz by (apply Qis_zero_iZ; lia).
  eexists. split; [reflexivity|]. symmetry. apply Qred_correct.
Qed.
(* outside that range the source is the logarithmic formula, for every x >= 0 *)
Lemma Poisson_pmf_log_branch : forall fo xk mu x, (0 <= x)%Z -> (100 < x)%Z \/ 100 < mu ->
  g_Poisson_pmf fo xk mu x
  = Ok (k_exp xk (inject_Z x * k_log xk mu - mu - k_lgamma xk (inject_Z (x + 1)))).
Proof.
  intros fo xk mu x Hx H. unfold g_Poisson_pmf.
  destruct (Z.ltb_spec x 0); [lia|].
  assert ((x >? 100)%Z || Qltb 100 mu = true) as ->; [|reflexivity].
  apply orb_true_iff. destruct H as [H|H]; [left; rewrite Z.gtb_ltb; apply Z.ltb_lt; exact H
                                           |right; apply Qltb_lt; exact H].
Qed.

Lemma poisson_pmf_pos mu e x : 0 < mu -> 0 < e -> (0 <= x)%Z -> 0 < poisson_pmf mu e x.
Proof.
  intros Hm He Hx. unfold poisson_pmf. destruct (Z.ltb_spec x 0); [lia|]. rewrite Qred_correct.
  pose proof (iZ_pos _ (factorial_pos x)).
  apply Qlt_shift_div_l; [assumption|]. rewrite Qmult_0_l.
  apply Qmult_lt_0_compat; [apply Qpower_0_lt|]; assumption.
Qed.

(* Poisson.cdf is a while loop with an underflow exit (a term that is 0 past the mean) and a final
   min(total, 1).  Over exact numbers with exp(-mu) > 0 no term is 0, so the exit is never taken; the
   cap is the identity exactly when the cumulative value is <= 1 (e^-mu Σ mu^j/j! <= 1 is a property of
   exp that the model does not prove: hypothesis).  Under these hypotheses, in the range of the direct
   pmf formula and with enough fuel for the x+1 rounds, the loop delivers the model's value. *)
Lemma Poisson_cdf_is_source : forall fo xk fuel mu x,
  valid_params (Poisson mu) -> mu <= 100 -> (x <= 100)%Z -> 0 < expneg fo mu ->
  poisson_cdf mu (expneg fo mu) x <= 1 -> (Z.to_nat (x + 1) < fuel)%nat ->
  okq (g_Poisson_cdf fo xk fuel mu x) (poisson_cdf mu (expneg fo mu) x).
Proof.
  intros fo xk fuel mu x Hmu Hmu' Hx He Hcap Hfuel. cbn [valid_params] in Hmu.
  set (e := expneg fo mu) in *. set (pmf := poisson_pmf mu e).
  unfold g_Poisson_cdf. cbv zeta.
  match goal with |- context [while_loop _ ?s _] => set (step := s) end.
  assert (L : forall n fu T j, (0 <= j)%Z -> (j <= x + 1)%Z -> n = Z.to_nat (x + 1 - j) -> (n < fu)%nat ->
              T == sumZ pmf 0 (j - 1) ->
              exists T' j', while_loop fu step (T, j) = Ok (T', j') /\ T' == sumZ pmf 0 x).
  { induction n as [|n IH]; intros fu T j Hj0 Hj1 Hn Hfu HT.
    - destruct fu as [|fu]; [lia|]. cbn [while_loop]. unfold step at 1. cbv beta iota.
      destruct (Z.leb_spec j x); [lia|]. cbn [bind]. exists T, j. split; [reflexivity|].
      replace x with (j - 1)%Z by lia. exact HT.
    - destruct fu as [|fu]; [lia|]. cbn [while_loop]. unfold step at 1. cbv beta iota.
      destruct (Z.leb_spec j x); [|lia].
      destruct (Poisson_pmf_is_source fo xk mu j ltac:(lia) Hmu') as [v [Ev Hv]]. fold e in Hv.
      rewrite Ev. cbn [bind]. cbv zeta.
      pose proof (poisson_pmf_pos mu e j Hmu He Hj0) as Hpos.
      destruct (Qeqb v 0) eqn:Ez; [apply Qeqb_eq in Ez; lra|]. cbn [andb bind].
      apply IH; try lia.
      replace (j + 1 - 1)%Z with j by lia. rewrite (sumZ_last pmf 0 j) by lia. rewrite HT, Hv. reflexivity. }
  destruct (Z.lt_ge_cases x (-1)) as [Hneg|Hnn].
  - (* x < -1 cannot be excluded by the types: no round is made *)
    destruct fuel as [|fu]; [lia|]. cbn [while_loop]. unfold step at 1. cbv beta iota.
    destruct (Z.leb_spec 0 x); [lia|]. cbn [bind]. eexists. split; [reflexivity|].
    destruct (poisson_law mu e ltac:(lra) ltac:(lra)) as [_ [_ Hc]].
    rewrite Hc, sumZ_empty by lia. rewrite Q.min_l; [reflexivity|lra].
  - assert (H0 : 0 == sumZ pmf 0 (0 - 1)) by (rewrite sumZ_empty by lia; reflexivity).
    assert (Hf : (Z.to_nat (x + 1 - 0) < fuel)%nat) by (replace (x + 1 - 0)%Z with (x + 1)%Z by lia; exact Hfuel).
    destruct (L (Z.to_nat (x + 1 - 0)) fuel 0 0%Z ltac:(lia) ltac:(lia) eq_refl Hf H0) as [T' [j' [EL HT']]].
    rewrite EL. cbn [bind]. eexists. split; [reflexivity|].
    destruct (poisson_law mu e ltac:(lra) ltac:(lra)) as [_ [_ Hc]].
    assert (T' == poisson_cdf mu e x) as HT2 by (rewrite Hc; exact HT').
    rewrite Q.min_l; [exact HT2|]. rewrite HT2. exact Hcap.
Qed.

(* ------------------------------------------------------------------------- *)
(* events: which comparison maps to which cdf/pmf expression, floor/ceil for discrete variables *)
Lemma eval_probability_is_source : forall op l r, eval_probability op l r = g_eval_probability op l r.
Proof.
  intros op l r. unfold g_eval_probability, eval_probability.
  destruct op; destruct l as [t|[pm cd|cd]]; destruct r as [u|[pm' cd'|cd']]; reflexivity.
Qed.

Lemma Event_init_is_source : forall op x y, g_Event_init op x y = Ok (Event op x y).
Proof. reflexivity. Qed.
Lemma DoubleEvent_init_is_source : forall op1 op2 x y z,
  g_DoubleEvent_init op1 op2 x y z = Ok (DoubleEvent op1 op2 x y z).
Proof. reflexivity. Qed.

Lemma Event_probability_is_source : forall op x y,
  probability (Event op x y) = g_Event_probability op x y.
Proof. intros. unfold g_Event_probability. cbn [probability]. apply eval_probability_is_source. Qed.

Lemma DoubleEvent_probability_is_source : forall op1 op2 x y z,
  probability (DoubleEvent op1 op2 x y z) = g_DoubleEvent_probability op1 op2 x y z.
Proof.
  intros. unfold g_DoubleEvent_probability. cbn [probability]. rewrite <- !eval_probability_is_source.
  destruct y as [pm cd|cd]; destruct op1; destruct op2; reflexivity.
Qed.

Lemma probability_is_source : forall e, probability e = g_probability e.
Proof.
  intros [op x y|op1 op2 x y z]; cbn [g_probability];
    [apply Event_probability_is_source|apply DoubleEvent_probability_is_source].
Qed.

(* ------------------------------------------------------------------------- *)
(* registrations (functions.py): what each registered implementation builds.  [dispatch_event] of the
   model picks, for a comparison chain and the classes of its operands, the event that the
   implementation registered under that name and signature constructs; P / E / mean apply
   .probability() / .mean(). *)
Definition rel_label (r : rel) : string :=
  match r with Rlt => "<" | Rle => "<=" | Rgt => ">" | Rge => ">=" | Req => "=" end%string.

Lemma cmpop_label_is_source :
  g_cmpop_label LT = rel_label Rlt /\ g_cmpop_label LEQ = rel_label Rle /\ g_cmpop_label EQ = rel_label Req.
Proof. repeat split; reflexivity. Qed.

Lemma dispatch_lt_num_rv_is_source : forall x Y,
  dispatch_event [TNum x; TRv Y] [Rlt] = g_reg_lt_Number_RandomVariable x Y.
Proof. reflexivity. Qed.
Lemma dispatch_lt_rv_num_is_source : forall X y,
  dispatch_event [TRv X; TNum y] [Rlt] = g_reg_lt_RandomVariable_Number X y.
Proof. reflexivity. Qed.
Lemma dispatch_le_num_rv_is_source : forall x Y,
  dispatch_event [TNum x; TRv Y] [Rle] = g_reg_le_Number_RandomVariable x Y.
Proof. reflexivity. Qed.
Lemma dispatch_le_rv_num_is_source : forall X y,
  dispatch_event [TRv X; TNum y] [Rle] = g_reg_le_RandomVariable_Number X y.
Proof. reflexivity. Qed.
Lemma dispatch_eq_is_source : forall pm cd k, is_integral (NFrac k) = true ->
  dispatch_event [TRv (Disc pm cd); TNum k] [Req] = g_reg_eq_DiscreteRandomVariable_Integral (Disc pm cd) k.
Proof.
  intros pm cd k H. cbn [dispatch_event]. rewrite H. reflexivity.
Qed.
Lemma dispatch_double_is_source : forall x Y z,
  dispatch_event [TNum x; TRv Y; TNum z] [Rlt; Rlt] = g_reg_lt_lt_Number_RandomVariable_Number x Y z /\
  dispatch_event [TNum x; TRv Y; TNum z] [Rlt; Rle] = g_reg_lt_le_Number_RandomVariable_Number x Y z /\
  dispatch_event [TNum x; TRv Y; TNum z] [Rle; Rlt] = g_reg_le_lt_Number_RandomVariable_Number x Y z /\
  dispatch_event [TNum x; TRv Y; TNum z] [Rle; Rle] = g_reg_le_le_Number_RandomVariable_Number x Y z.
Proof. intros. repeat split; reflexivity. Qed.

Lemma P_is_source : forall e, probability e = g_reg_P_Event e /\ probability e = g_reg_P_DoubleEvent e.
Proof. intro e. unfold g_reg_P_Event, g_reg_P_DoubleEvent. split; apply probability_is_source. Qed.
Lemma E_mean_is_source : forall l, mean l = g_reg_mean_RandomVariable l /\ mean l = g_reg_E_RandomVariable l.
Proof. intro l. unfold g_reg_mean_RandomVariable, g_reg_E_RandomVariable. split; apply mean_is_source. Qed.
(* "mean(K(..))" / "E(K(..))" / "P(.. K(..) ..)": the constructor call first, then the registered function *)
Lemma mean_of_is_source : forall l, mean_of l = (do r <- g_make_rv l; g_reg_E_RandomVariable r).
Proof.
  intro l. unfold mean_of, g_reg_E_RandomVariable. rewrite <- make_rv_is_source.
  destruct (make_rv l); [cbn [bind]; apply mean_is_source|reflexivity].
Qed.

(* the names under which event constructors are registered: exactly "=", the two forward operators and
   their four "_"-joined pairs — so a chain with > / >= that the parser did not flip, or with "=" in a
   double chain, finds no function (the model's UnknownFunctionError) *)
Definition reg_names_with (f : string -> bool) : list string :=
  map (fun r => fst (fst r)) (filter (fun r => f (snd r)) g_prob_registrations).
Definition builds_event (impl : string) : bool :=
  existsb (String.eqb impl)
    ["g_reg_eq_DiscreteRandomVariable_Integral"; "g_reg_le_Number_RandomVariable"; "g_reg_le_RandomVariable_Number";
     "g_reg_lt_Number_RandomVariable"; "g_reg_lt_RandomVariable_Number";
     "g_reg_le_le_Number_RandomVariable_Number"; "g_reg_le_lt_Number_RandomVariable_Number";
     "g_reg_lt_le_Number_RandomVariable_Number"; "g_reg_lt_lt_Number_RandomVariable_Number"]%string.
Lemma event_registrations_are_source :
  (forall n ts impl, In (n, ts, impl) g_prob_registrations ->
     existsb (String.eqb "Number") ts || existsb (String.eqb "Integral") ts = true ->
     existsb (String.eqb "RandomVariable") ts || existsb (String.eqb "DiscreteRandomVariable") ts = true ->
     builds_event impl = true \/ n = "sample"%string) /\
  reg_names_with builds_event = ["="; "<="; "<="; "<=_<="; "<=_<"; "<"; "<"; "<_<="; "<_<"]%string /\
  reg_names_with (fun i => String.eqb i "g_reg_P_Event" || String.eqb i "g_reg_P_DoubleEvent") = ["P"; "P"]%string /\
  reg_names_with (fun i => String.eqb i "g_reg_mean_RandomVariable" || String.eqb i "g_reg_E_RandomVariable")
    = ["mean"; "E"]%string.
Proof.
  split; [|repeat split; reflexivity].
  intros n ts impl HIn. unfold g_prob_registrations in HIn. cbn [In] in HIn.
  repeat (destruct HIn as [HIn|HIn]; [inversion HIn; subst; cbn; intros; first [discriminate | left; reflexivity | right; reflexivity]|]).
  contradiction.
Qed.

Print Assumptions factorial_is_source.
Print Assumptions choose_is_source.
Print Assumptions make_rv_is_source.
Print Assumptions is_discrete_is_source.
Print Assumptions mean_is_source.
Print Assumptions Binomial_pmf_is_source.
Print Assumptions Binomial_cdf_is_source.
Print Assumptions Poisson_pmf_is_source.
Print Assumptions Poisson_pmf_log_branch.
Print Assumptions Poisson_cdf_is_source.
Print Assumptions Geometric_pmf_is_source.
Print Assumptions Geometric_cdf_is_source.
Print Assumptions Bernoulli_pmf_is_source.
Print Assumptions Bernoulli_cdf_is_source.
Print Assumptions UniformInt_pmf_is_source.
Print Assumptions UniformInt_cdf_is_source.
Print Assumptions Exponential_cdf_is_source.
Print Assumptions Uniform_cdf_is_source.
Print Assumptions Gaussian_cdf_is_source.
Print Assumptions eval_probability_is_source.
Print Assumptions Event_init_is_source.
Print Assumptions DoubleEvent_init_is_source.
Print Assumptions probability_is_source.
Print Assumptions cmpop_label_is_source.
Print Assumptions dispatch_lt_num_rv_is_source.
Print Assumptions dispatch_lt_rv_num_is_source.
Print Assumptions dispatch_le_num_rv_is_source.
Print Assumptions dispatch_le_rv_num_is_source.
Print Assumptions dispatch_eq_is_source.
Print Assumptions dispatch_double_is_source.
Print Assumptions P_is_source.
Print Assumptions E_mean_is_source.
Print Assumptions mean_of_is_source.
Print Assumptions event_registrations_are_source.
