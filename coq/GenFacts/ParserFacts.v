(* ParserFacts.v — the tag strings of Model/Syntax.v are the ones of ka.tokens.Tokens
   (Gen/GenTokens.v is regenerated from the live module on every run). *)
From Coq Require Import List String Bool.
From Ka Require Import Gen.GenTokens Model.Syntax.
Import ListNotations.
Open Scope string_scope.

Fixpoint lookup (k : string) (l : list (string * string)) : option string :=
  match l with
  | [] => None
  | (k', v) :: r => if String.eqb k k' then Some v else lookup k r
  end.

Definition opt_eqb (a : option string) (b : string) : bool :=
  match a with Some x => String.eqb x b | None => false end.

(* every tag the model knows has the spelling of the live table ... *)
Lemma tags_match :
  forallb (fun p => opt_eqb (lookup (fst p) token_tags) (tag_of (snd p))) tag_names = true.
Proof. vm_compute. reflexivity. Qed.

(* ... and the live table has no tag the model does not know *)
Lemma tags_complete :
  forallb (fun p => existsb (fun q => String.eqb (fst p) (fst q)) tag_names) token_tags = true.
Proof. vm_compute. reflexivity. Qed.
