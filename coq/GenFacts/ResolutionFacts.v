(* ResolutionFacts — the seam between the regenerated registry and the hand-written slices
   (Num.v, Comb.v, Qty.v, Cmp.v): every overload resolution those models silently rely on, as
   facts about Gen/GenFunctions.v re-proved by computation on every run.  An edit of the
   registry (or of the class lattice) that changes which body dispatch would run for one of
   these kind tuples breaks the lemma below.  The expected implementation keys are the ones
   the translator emits (module.qualname[closure cells]). *)
From Ka Require Import Model.Dispatch.
Local Open Scope string_scope.

Definition resolves (name : string) (ks : list string) (impl : string) : bool :=
  match dispatch_decision name (map kind_ix ks) [] with
  | Run i _ => String.eqb i impl
  | Reject _ => false
  end.
Definition rejects (name : string) (ks : list string) : bool :=
  match dispatch_decision name (map kind_ix ks) [] with
  | Reject NoMatchingFunctionSignatureError => true
  | _ => false
  end.

Definition resolution_facts : bool :=
  resolves "+" ["int"; "int"] "_operator.add" &&
  resolves "+" ["int"; "Fraction"] "_operator.add" &&
  resolves "+" ["int"; "float"] "_operator.add" &&
  resolves "+" ["int"; "Combinatoric"] "_operator.add" &&
  resolves "+" ["Fraction"; "int"] "_operator.add" &&
  resolves "+" ["Fraction"; "Fraction"] "_operator.add" &&
  resolves "+" ["Fraction"; "float"] "_operator.add" &&
  resolves "+" ["Fraction"; "Combinatoric"] "_operator.add" &&
  resolves "+" ["float"; "int"] "_operator.add" &&
  resolves "+" ["float"; "Fraction"] "_operator.add" &&
  resolves "+" ["float"; "float"] "_operator.add" &&
  resolves "+" ["float"; "Combinatoric"] "_operator.add" &&
  resolves "+" ["Combinatoric"; "int"] "_operator.add" &&
  resolves "+" ["Combinatoric"; "Fraction"] "_operator.add" &&
  resolves "+" ["Combinatoric"; "float"] "_operator.add" &&
  resolves "+" ["Combinatoric"; "Combinatoric"] "_operator.add" &&
  resolves "+" ["Quantity"; "Quantity"] "ka.functions.register_quantities_op.<locals>.f[name='+',quantity_vector_combiner=None,wrap_in_quantity=True]" &&
  resolves "+" ["int"; "Quantity"] "ka.functions.register_quantities_op.<locals>.left_is_number[f=ka.functions.register_quantities_op.<locals>.f[name='+',quantity_vector_combiner=None,wrap_in_quantity=True]]" &&
  resolves "+" ["Quantity"; "int"] "ka.functions.register_quantities_op.<locals>.right_is_number[f=ka.functions.register_quantities_op.<locals>.f[name='+',quantity_vector_combiner=None,wrap_in_quantity=True]]" &&
  resolves "+" ["Fraction"; "Quantity"] "ka.functions.register_quantities_op.<locals>.left_is_number[f=ka.functions.register_quantities_op.<locals>.f[name='+',quantity_vector_combiner=None,wrap_in_quantity=True]]" &&
  resolves "+" ["Quantity"; "float"] "ka.functions.register_quantities_op.<locals>.right_is_number[f=ka.functions.register_quantities_op.<locals>.f[name='+',quantity_vector_combiner=None,wrap_in_quantity=True]]" &&
  resolves "-" ["int"; "int"] "_operator.sub" &&
  resolves "-" ["int"; "Fraction"] "_operator.sub" &&
  resolves "-" ["int"; "float"] "_operator.sub" &&
  resolves "-" ["int"; "Combinatoric"] "_operator.sub" &&
  resolves "-" ["Fraction"; "int"] "_operator.sub" &&
  resolves "-" ["Fraction"; "Fraction"] "_operator.sub" &&
  resolves "-" ["Fraction"; "float"] "_operator.sub" &&
  resolves "-" ["Fraction"; "Combinatoric"] "_operator.sub" &&
  resolves "-" ["float"; "int"] "_operator.sub" &&
  resolves "-" ["float"; "Fraction"] "_operator.sub" &&
  resolves "-" ["float"; "float"] "_operator.sub" &&
  resolves "-" ["float"; "Combinatoric"] "_operator.sub" &&
  resolves "-" ["Combinatoric"; "int"] "_operator.sub" &&
  resolves "-" ["Combinatoric"; "Fraction"] "_operator.sub" &&
  resolves "-" ["Combinatoric"; "float"] "_operator.sub" &&
  resolves "-" ["Combinatoric"; "Combinatoric"] "_operator.sub" &&
  resolves "-" ["Quantity"; "Quantity"] "ka.functions.register_quantities_op.<locals>.f[name='-',quantity_vector_combiner=None,wrap_in_quantity=True]" &&
  resolves "-" ["int"; "Quantity"] "ka.functions.register_quantities_op.<locals>.left_is_number[f=ka.functions.register_quantities_op.<locals>.f[name='-',quantity_vector_combiner=None,wrap_in_quantity=True]]" &&
  resolves "-" ["Quantity"; "int"] "ka.functions.register_quantities_op.<locals>.right_is_number[f=ka.functions.register_quantities_op.<locals>.f[name='-',quantity_vector_combiner=None,wrap_in_quantity=True]]" &&
  resolves "-" ["Fraction"; "Quantity"] "ka.functions.register_quantities_op.<locals>.left_is_number[f=ka.functions.register_quantities_op.<locals>.f[name='-',quantity_vector_combiner=None,wrap_in_quantity=True]]" &&
  resolves "-" ["Quantity"; "float"] "ka.functions.register_quantities_op.<locals>.right_is_number[f=ka.functions.register_quantities_op.<locals>.f[name='-',quantity_vector_combiner=None,wrap_in_quantity=True]]" &&
  resolves "*" ["int"; "int"] "_operator.mul" &&
  resolves "*" ["int"; "Fraction"] "_operator.mul" &&
  resolves "*" ["int"; "float"] "_operator.mul" &&
  resolves "*" ["int"; "Combinatoric"] "ka.functions.frac_times_comb" &&
  resolves "*" ["Fraction"; "int"] "_operator.mul" &&
  resolves "*" ["Fraction"; "Fraction"] "_operator.mul" &&
  resolves "*" ["Fraction"; "float"] "_operator.mul" &&
  resolves "*" ["Fraction"; "Combinatoric"] "ka.functions.frac_times_comb" &&
  resolves "*" ["float"; "int"] "_operator.mul" &&
  resolves "*" ["float"; "Fraction"] "_operator.mul" &&
  resolves "*" ["float"; "float"] "_operator.mul" &&
  resolves "*" ["float"; "Combinatoric"] "_operator.mul" &&
  resolves "*" ["Combinatoric"; "int"] "ka.functions.comb_times_frac" &&
  resolves "*" ["Combinatoric"; "Fraction"] "ka.functions.comb_times_frac" &&
  resolves "*" ["Combinatoric"; "float"] "_operator.mul" &&
  resolves "*" ["Combinatoric"; "Combinatoric"] "ka.functions.comb_times_comb" &&
  resolves "*" ["Quantity"; "Quantity"] "ka.functions.register_quantities_op.<locals>.f[name='*',quantity_vector_combiner=ka.functions.<lambda>{register_quantities_op(""*"", lambda qv1, qv2: qv1*qv2)},wrap_in_quantity=True]" &&
  resolves "*" ["int"; "Quantity"] "ka.functions.register_quantities_op.<locals>.left_is_number[f=ka.functions.register_quantities_op.<locals>.f[name='*',quantity_vector_combiner=ka.functions.<lambda>{register_quantities_op(""*"", lambda qv1, qv2: qv1*qv2)},wrap_in_quantity=True]]" &&
  resolves "*" ["Quantity"; "int"] "ka.functions.register_quantities_op.<locals>.right_is_number[f=ka.functions.register_quantities_op.<locals>.f[name='*',quantity_vector_combiner=ka.functions.<lambda>{register_quantities_op(""*"", lambda qv1, qv2: qv1*qv2)},wrap_in_quantity=True]]" &&
  resolves "*" ["Fraction"; "Quantity"] "ka.functions.register_quantities_op.<locals>.left_is_number[f=ka.functions.register_quantities_op.<locals>.f[name='*',quantity_vector_combiner=ka.functions.<lambda>{register_quantities_op(""*"", lambda qv1, qv2: qv1*qv2)},wrap_in_quantity=True]]" &&
  resolves "*" ["Quantity"; "float"] "ka.functions.register_quantities_op.<locals>.right_is_number[f=ka.functions.register_quantities_op.<locals>.f[name='*',quantity_vector_combiner=ka.functions.<lambda>{register_quantities_op(""*"", lambda qv1, qv2: qv1*qv2)},wrap_in_quantity=True]]" &&
  resolves "/" ["int"; "int"] "ka.types.fraction_divide" &&
  resolves "/" ["int"; "Fraction"] "_operator.truediv" &&
  resolves "/" ["int"; "float"] "_operator.truediv" &&
  resolves "/" ["int"; "Combinatoric"] "ka.functions.frac_div_comb" &&
  resolves "/" ["Fraction"; "int"] "_operator.truediv" &&
  resolves "/" ["Fraction"; "Fraction"] "_operator.truediv" &&
  resolves "/" ["Fraction"; "float"] "_operator.truediv" &&
  resolves "/" ["Fraction"; "Combinatoric"] "ka.functions.frac_div_comb" &&
  resolves "/" ["float"; "int"] "_operator.truediv" &&
  resolves "/" ["float"; "Fraction"] "_operator.truediv" &&
  resolves "/" ["float"; "float"] "_operator.truediv" &&
  resolves "/" ["float"; "Combinatoric"] "_operator.truediv" &&
  resolves "/" ["Combinatoric"; "int"] "ka.functions.comb_div_frac" &&
  resolves "/" ["Combinatoric"; "Fraction"] "ka.functions.comb_div_frac" &&
  resolves "/" ["Combinatoric"; "float"] "_operator.truediv" &&
  resolves "/" ["Combinatoric"; "Combinatoric"] "ka.functions.comb_div_comb" &&
  resolves "/" ["Quantity"; "Quantity"] "ka.functions.register_quantities_op.<locals>.f[name='/',quantity_vector_combiner=ka.functions.<lambda>{register_quantities_op(""/"", lambda qv1, qv2: qv1/qv2)},wrap_in_quantity=True]" &&
  resolves "/" ["int"; "Quantity"] "ka.functions.register_quantities_op.<locals>.left_is_number[f=ka.functions.register_quantities_op.<locals>.f[name='/',quantity_vector_combiner=ka.functions.<lambda>{register_quantities_op(""/"", lambda qv1, qv2: qv1/qv2)},wrap_in_quantity=True]]" &&
  resolves "/" ["Quantity"; "int"] "ka.functions.register_quantities_op.<locals>.right_is_number[f=ka.functions.register_quantities_op.<locals>.f[name='/',quantity_vector_combiner=ka.functions.<lambda>{register_quantities_op(""/"", lambda qv1, qv2: qv1/qv2)},wrap_in_quantity=True]]" &&
  resolves "/" ["Fraction"; "Quantity"] "ka.functions.register_quantities_op.<locals>.left_is_number[f=ka.functions.register_quantities_op.<locals>.f[name='/',quantity_vector_combiner=ka.functions.<lambda>{register_quantities_op(""/"", lambda qv1, qv2: qv1/qv2)},wrap_in_quantity=True]]" &&
  resolves "/" ["Quantity"; "float"] "ka.functions.register_quantities_op.<locals>.right_is_number[f=ka.functions.register_quantities_op.<locals>.f[name='/',quantity_vector_combiner=ka.functions.<lambda>{register_quantities_op(""/"", lambda qv1, qv2: qv1/qv2)},wrap_in_quantity=True]]" &&
  resolves "%" ["int"; "int"] "_operator.mod" &&
  resolves "%" ["int"; "Fraction"] "_operator.mod" &&
  resolves "%" ["int"; "float"] "_operator.mod" &&
  resolves "%" ["int"; "Combinatoric"] "_operator.mod" &&
  resolves "%" ["Fraction"; "int"] "_operator.mod" &&
  resolves "%" ["Fraction"; "Fraction"] "_operator.mod" &&
  resolves "%" ["Fraction"; "float"] "_operator.mod" &&
  resolves "%" ["Fraction"; "Combinatoric"] "_operator.mod" &&
  resolves "%" ["float"; "int"] "_operator.mod" &&
  resolves "%" ["float"; "Fraction"] "_operator.mod" &&
  resolves "%" ["float"; "float"] "_operator.mod" &&
  resolves "%" ["float"; "Combinatoric"] "_operator.mod" &&
  resolves "%" ["Combinatoric"; "int"] "_operator.mod" &&
  resolves "%" ["Combinatoric"; "Fraction"] "_operator.mod" &&
  resolves "%" ["Combinatoric"; "float"] "_operator.mod" &&
  resolves "%" ["Combinatoric"; "Combinatoric"] "_operator.mod" &&
  resolves "^" ["int"; "int"] "ka.functions.strict_pow" &&
  resolves "^" ["int"; "Fraction"] "ka.functions.strict_pow" &&
  resolves "^" ["int"; "float"] "ka.functions.strict_pow" &&
  resolves "^" ["int"; "Combinatoric"] "ka.functions.strict_pow" &&
  resolves "^" ["Fraction"; "int"] "ka.functions.strict_pow" &&
  resolves "^" ["Fraction"; "Fraction"] "ka.functions.strict_pow" &&
  resolves "^" ["Fraction"; "float"] "ka.functions.strict_pow" &&
  resolves "^" ["Fraction"; "Combinatoric"] "ka.functions.strict_pow" &&
  resolves "^" ["float"; "int"] "ka.functions.strict_pow" &&
  resolves "^" ["float"; "Fraction"] "ka.functions.strict_pow" &&
  resolves "^" ["float"; "float"] "ka.functions.strict_pow" &&
  resolves "^" ["float"; "Combinatoric"] "ka.functions.strict_pow" &&
  resolves "^" ["Combinatoric"; "int"] "ka.functions.strict_pow" &&
  resolves "^" ["Combinatoric"; "Fraction"] "ka.functions.strict_pow" &&
  resolves "^" ["Combinatoric"; "float"] "ka.functions.strict_pow" &&
  resolves "^" ["Combinatoric"; "Combinatoric"] "ka.functions.strict_pow" &&
  resolves "<" ["int"; "int"] "ka.functions.intify.<locals>.f_new[f=_operator.lt]" &&
  resolves "<" ["int"; "Fraction"] "ka.functions.intify.<locals>.f_new[f=_operator.lt]" &&
  resolves "<" ["int"; "float"] "ka.functions.intify.<locals>.f_new[f=_operator.lt]" &&
  resolves "<" ["int"; "Combinatoric"] "ka.functions.intify.<locals>.f_new[f=_operator.lt]" &&
  resolves "<" ["Fraction"; "int"] "ka.functions.intify.<locals>.f_new[f=_operator.lt]" &&
  resolves "<" ["Fraction"; "Fraction"] "ka.functions.intify.<locals>.f_new[f=_operator.lt]" &&
  resolves "<" ["Fraction"; "float"] "ka.functions.intify.<locals>.f_new[f=_operator.lt]" &&
  resolves "<" ["Fraction"; "Combinatoric"] "ka.functions.intify.<locals>.f_new[f=_operator.lt]" &&
  resolves "<" ["float"; "int"] "ka.functions.intify.<locals>.f_new[f=_operator.lt]" &&
  resolves "<" ["float"; "Fraction"] "ka.functions.intify.<locals>.f_new[f=_operator.lt]" &&
  resolves "<" ["float"; "float"] "ka.functions.intify.<locals>.f_new[f=_operator.lt]" &&
  resolves "<" ["float"; "Combinatoric"] "ka.functions.intify.<locals>.f_new[f=_operator.lt]" &&
  resolves "<" ["Combinatoric"; "int"] "ka.functions.intify.<locals>.f_new[f=_operator.lt]" &&
  resolves "<" ["Combinatoric"; "Fraction"] "ka.functions.intify.<locals>.f_new[f=_operator.lt]" &&
  resolves "<" ["Combinatoric"; "float"] "ka.functions.intify.<locals>.f_new[f=_operator.lt]" &&
  resolves "<" ["Combinatoric"; "Combinatoric"] "ka.functions.intify.<locals>.f_new[f=_operator.lt]" &&
  resolves "<" ["Quantity"; "Quantity"] "ka.functions.register_quantities_op.<locals>.f[name='<',quantity_vector_combiner=None,wrap_in_quantity=False]" &&
  resolves "<" ["int"; "Quantity"] "ka.functions.register_quantities_op.<locals>.left_is_number[f=ka.functions.register_quantities_op.<locals>.f[name='<',quantity_vector_combiner=None,wrap_in_quantity=False]]" &&
  resolves "<" ["Quantity"; "int"] "ka.functions.register_quantities_op.<locals>.right_is_number[f=ka.functions.register_quantities_op.<locals>.f[name='<',quantity_vector_combiner=None,wrap_in_quantity=False]]" &&
  resolves "<" ["Fraction"; "Quantity"] "ka.functions.register_quantities_op.<locals>.left_is_number[f=ka.functions.register_quantities_op.<locals>.f[name='<',quantity_vector_combiner=None,wrap_in_quantity=False]]" &&
  resolves "<" ["Quantity"; "float"] "ka.functions.register_quantities_op.<locals>.right_is_number[f=ka.functions.register_quantities_op.<locals>.f[name='<',quantity_vector_combiner=None,wrap_in_quantity=False]]" &&
  resolves "<=" ["int"; "int"] "ka.functions.intify.<locals>.f_new[f=_operator.le]" &&
  resolves "<=" ["int"; "Fraction"] "ka.functions.intify.<locals>.f_new[f=_operator.le]" &&
  resolves "<=" ["int"; "float"] "ka.functions.intify.<locals>.f_new[f=_operator.le]" &&
  resolves "<=" ["int"; "Combinatoric"] "ka.functions.intify.<locals>.f_new[f=_operator.le]" &&
  resolves "<=" ["Fraction"; "int"] "ka.functions.intify.<locals>.f_new[f=_operator.le]" &&
  resolves "<=" ["Fraction"; "Fraction"] "ka.functions.intify.<locals>.f_new[f=_operator.le]" &&
  resolves "<=" ["Fraction"; "float"] "ka.functions.intify.<locals>.f_new[f=_operator.le]" &&
  resolves "<=" ["Fraction"; "Combinatoric"] "ka.functions.intify.<locals>.f_new[f=_operator.le]" &&
  resolves "<=" ["float"; "int"] "ka.functions.intify.<locals>.f_new[f=_operator.le]" &&
  resolves "<=" ["float"; "Fraction"] "ka.functions.intify.<locals>.f_new[f=_operator.le]" &&
  resolves "<=" ["float"; "float"] "ka.functions.intify.<locals>.f_new[f=_operator.le]" &&
  resolves "<=" ["float"; "Combinatoric"] "ka.functions.intify.<locals>.f_new[f=_operator.le]" &&
  resolves "<=" ["Combinatoric"; "int"] "ka.functions.intify.<locals>.f_new[f=_operator.le]" &&
  resolves "<=" ["Combinatoric"; "Fraction"] "ka.functions.intify.<locals>.f_new[f=_operator.le]" &&
  resolves "<=" ["Combinatoric"; "float"] "ka.functions.intify.<locals>.f_new[f=_operator.le]" &&
  resolves "<=" ["Combinatoric"; "Combinatoric"] "ka.functions.intify.<locals>.f_new[f=_operator.le]" &&
  resolves "<=" ["Quantity"; "Quantity"] "ka.functions.register_quantities_op.<locals>.f[name='<=',quantity_vector_combiner=None,wrap_in_quantity=False]" &&
  resolves "<=" ["int"; "Quantity"] "ka.functions.register_quantities_op.<locals>.left_is_number[f=ka.functions.register_quantities_op.<locals>.f[name='<=',quantity_vector_combiner=None,wrap_in_quantity=False]]" &&
  resolves "<=" ["Quantity"; "int"] "ka.functions.register_quantities_op.<locals>.right_is_number[f=ka.functions.register_quantities_op.<locals>.f[name='<=',quantity_vector_combiner=None,wrap_in_quantity=False]]" &&
  resolves "<=" ["Fraction"; "Quantity"] "ka.functions.register_quantities_op.<locals>.left_is_number[f=ka.functions.register_quantities_op.<locals>.f[name='<=',quantity_vector_combiner=None,wrap_in_quantity=False]]" &&
  resolves "<=" ["Quantity"; "float"] "ka.functions.register_quantities_op.<locals>.right_is_number[f=ka.functions.register_quantities_op.<locals>.f[name='<=',quantity_vector_combiner=None,wrap_in_quantity=False]]" &&
  resolves "==" ["int"; "int"] "ka.functions.intify.<locals>.f_new[f=_operator.eq]" &&
  resolves "==" ["int"; "Fraction"] "ka.functions.intify.<locals>.f_new[f=_operator.eq]" &&
  resolves "==" ["int"; "float"] "ka.functions.intify.<locals>.f_new[f=_operator.eq]" &&
  resolves "==" ["int"; "Combinatoric"] "ka.functions.intify.<locals>.f_new[f=_operator.eq]" &&
  resolves "==" ["Fraction"; "int"] "ka.functions.intify.<locals>.f_new[f=_operator.eq]" &&
  resolves "==" ["Fraction"; "Fraction"] "ka.functions.intify.<locals>.f_new[f=_operator.eq]" &&
  resolves "==" ["Fraction"; "float"] "ka.functions.intify.<locals>.f_new[f=_operator.eq]" &&
  resolves "==" ["Fraction"; "Combinatoric"] "ka.functions.intify.<locals>.f_new[f=_operator.eq]" &&
  resolves "==" ["float"; "int"] "ka.functions.intify.<locals>.f_new[f=_operator.eq]" &&
  resolves "==" ["float"; "Fraction"] "ka.functions.intify.<locals>.f_new[f=_operator.eq]" &&
  resolves "==" ["float"; "float"] "ka.functions.intify.<locals>.f_new[f=_operator.eq]" &&
  resolves "==" ["float"; "Combinatoric"] "ka.functions.intify.<locals>.f_new[f=_operator.eq]" &&
  resolves "==" ["Combinatoric"; "int"] "ka.functions.intify.<locals>.f_new[f=_operator.eq]" &&
  resolves "==" ["Combinatoric"; "Fraction"] "ka.functions.intify.<locals>.f_new[f=_operator.eq]" &&
  resolves "==" ["Combinatoric"; "float"] "ka.functions.intify.<locals>.f_new[f=_operator.eq]" &&
  resolves "==" ["Combinatoric"; "Combinatoric"] "ka.functions.intify.<locals>.f_new[f=_operator.eq]" &&
  resolves "==" ["Quantity"; "Quantity"] "ka.functions.register_quantities_op.<locals>.f[name='==',quantity_vector_combiner=None,wrap_in_quantity=False]" &&
  resolves "==" ["int"; "Quantity"] "ka.functions.register_quantities_op.<locals>.left_is_number[f=ka.functions.register_quantities_op.<locals>.f[name='==',quantity_vector_combiner=None,wrap_in_quantity=False]]" &&
  resolves "==" ["Quantity"; "int"] "ka.functions.register_quantities_op.<locals>.right_is_number[f=ka.functions.register_quantities_op.<locals>.f[name='==',quantity_vector_combiner=None,wrap_in_quantity=False]]" &&
  resolves "==" ["Fraction"; "Quantity"] "ka.functions.register_quantities_op.<locals>.left_is_number[f=ka.functions.register_quantities_op.<locals>.f[name='==',quantity_vector_combiner=None,wrap_in_quantity=False]]" &&
  resolves "==" ["Quantity"; "float"] "ka.functions.register_quantities_op.<locals>.right_is_number[f=ka.functions.register_quantities_op.<locals>.f[name='==',quantity_vector_combiner=None,wrap_in_quantity=False]]" &&
  resolves "!=" ["int"; "int"] "ka.functions.intify.<locals>.f_new[f=_operator.ne]" &&
  resolves "!=" ["int"; "Fraction"] "ka.functions.intify.<locals>.f_new[f=_operator.ne]" &&
  resolves "!=" ["int"; "float"] "ka.functions.intify.<locals>.f_new[f=_operator.ne]" &&
  resolves "!=" ["int"; "Combinatoric"] "ka.functions.intify.<locals>.f_new[f=_operator.ne]" &&
  resolves "!=" ["Fraction"; "int"] "ka.functions.intify.<locals>.f_new[f=_operator.ne]" &&
  resolves "!=" ["Fraction"; "Fraction"] "ka.functions.intify.<locals>.f_new[f=_operator.ne]" &&
  resolves "!=" ["Fraction"; "float"] "ka.functions.intify.<locals>.f_new[f=_operator.ne]" &&
  resolves "!=" ["Fraction"; "Combinatoric"] "ka.functions.intify.<locals>.f_new[f=_operator.ne]" &&
  resolves "!=" ["float"; "int"] "ka.functions.intify.<locals>.f_new[f=_operator.ne]" &&
  resolves "!=" ["float"; "Fraction"] "ka.functions.intify.<locals>.f_new[f=_operator.ne]" &&
  resolves "!=" ["float"; "float"] "ka.functions.intify.<locals>.f_new[f=_operator.ne]" &&
  resolves "!=" ["float"; "Combinatoric"] "ka.functions.intify.<locals>.f_new[f=_operator.ne]" &&
  resolves "!=" ["Combinatoric"; "int"] "ka.functions.intify.<locals>.f_new[f=_operator.ne]" &&
  resolves "!=" ["Combinatoric"; "Fraction"] "ka.functions.intify.<locals>.f_new[f=_operator.ne]" &&
  resolves "!=" ["Combinatoric"; "float"] "ka.functions.intify.<locals>.f_new[f=_operator.ne]" &&
  resolves "!=" ["Combinatoric"; "Combinatoric"] "ka.functions.intify.<locals>.f_new[f=_operator.ne]" &&
  resolves "!=" ["Quantity"; "Quantity"] "ka.functions.register_quantities_op.<locals>.f[name='!=',quantity_vector_combiner=None,wrap_in_quantity=False]" &&
  resolves "!=" ["int"; "Quantity"] "ka.functions.register_quantities_op.<locals>.left_is_number[f=ka.functions.register_quantities_op.<locals>.f[name='!=',quantity_vector_combiner=None,wrap_in_quantity=False]]" &&
  resolves "!=" ["Quantity"; "int"] "ka.functions.register_quantities_op.<locals>.right_is_number[f=ka.functions.register_quantities_op.<locals>.f[name='!=',quantity_vector_combiner=None,wrap_in_quantity=False]]" &&
  resolves "!=" ["Fraction"; "Quantity"] "ka.functions.register_quantities_op.<locals>.left_is_number[f=ka.functions.register_quantities_op.<locals>.f[name='!=',quantity_vector_combiner=None,wrap_in_quantity=False]]" &&
  resolves "!=" ["Quantity"; "float"] "ka.functions.register_quantities_op.<locals>.right_is_number[f=ka.functions.register_quantities_op.<locals>.f[name='!=',quantity_vector_combiner=None,wrap_in_quantity=False]]" &&
  resolves ">" ["int"; "int"] "ka.functions.intify.<locals>.f_new[f=_operator.gt]" &&
  resolves ">" ["int"; "Fraction"] "ka.functions.intify.<locals>.f_new[f=_operator.gt]" &&
  resolves ">" ["int"; "float"] "ka.functions.intify.<locals>.f_new[f=_operator.gt]" &&
  resolves ">" ["int"; "Combinatoric"] "ka.functions.intify.<locals>.f_new[f=_operator.gt]" &&
  resolves ">" ["Fraction"; "int"] "ka.functions.intify.<locals>.f_new[f=_operator.gt]" &&
  resolves ">" ["Fraction"; "Fraction"] "ka.functions.intify.<locals>.f_new[f=_operator.gt]" &&
  resolves ">" ["Fraction"; "float"] "ka.functions.intify.<locals>.f_new[f=_operator.gt]" &&
  resolves ">" ["Fraction"; "Combinatoric"] "ka.functions.intify.<locals>.f_new[f=_operator.gt]" &&
  resolves ">" ["float"; "int"] "ka.functions.intify.<locals>.f_new[f=_operator.gt]" &&
  resolves ">" ["float"; "Fraction"] "ka.functions.intify.<locals>.f_new[f=_operator.gt]" &&
  resolves ">" ["float"; "float"] "ka.functions.intify.<locals>.f_new[f=_operator.gt]" &&
  resolves ">" ["float"; "Combinatoric"] "ka.functions.intify.<locals>.f_new[f=_operator.gt]" &&
  resolves ">" ["Combinatoric"; "int"] "ka.functions.intify.<locals>.f_new[f=_operator.gt]" &&
  resolves ">" ["Combinatoric"; "Fraction"] "ka.functions.intify.<locals>.f_new[f=_operator.gt]" &&
  resolves ">" ["Combinatoric"; "float"] "ka.functions.intify.<locals>.f_new[f=_operator.gt]" &&
  resolves ">" ["Combinatoric"; "Combinatoric"] "ka.functions.intify.<locals>.f_new[f=_operator.gt]" &&
  resolves ">" ["Quantity"; "Quantity"] "ka.functions.register_quantities_op.<locals>.f[name='>',quantity_vector_combiner=None,wrap_in_quantity=False]" &&
  resolves ">" ["int"; "Quantity"] "ka.functions.register_quantities_op.<locals>.left_is_number[f=ka.functions.register_quantities_op.<locals>.f[name='>',quantity_vector_combiner=None,wrap_in_quantity=False]]" &&
  resolves ">" ["Quantity"; "int"] "ka.functions.register_quantities_op.<locals>.right_is_number[f=ka.functions.register_quantities_op.<locals>.f[name='>',quantity_vector_combiner=None,wrap_in_quantity=False]]" &&
  resolves ">" ["Fraction"; "Quantity"] "ka.functions.register_quantities_op.<locals>.left_is_number[f=ka.functions.register_quantities_op.<locals>.f[name='>',quantity_vector_combiner=None,wrap_in_quantity=False]]" &&
  resolves ">" ["Quantity"; "float"] "ka.functions.register_quantities_op.<locals>.right_is_number[f=ka.functions.register_quantities_op.<locals>.f[name='>',quantity_vector_combiner=None,wrap_in_quantity=False]]" &&
  resolves ">=" ["int"; "int"] "ka.functions.intify.<locals>.f_new[f=_operator.ge]" &&
  resolves ">=" ["int"; "Fraction"] "ka.functions.intify.<locals>.f_new[f=_operator.ge]" &&
  resolves ">=" ["int"; "float"] "ka.functions.intify.<locals>.f_new[f=_operator.ge]" &&
  resolves ">=" ["int"; "Combinatoric"] "ka.functions.intify.<locals>.f_new[f=_operator.ge]" &&
  resolves ">=" ["Fraction"; "int"] "ka.functions.intify.<locals>.f_new[f=_operator.ge]" &&
  resolves ">=" ["Fraction"; "Fraction"] "ka.functions.intify.<locals>.f_new[f=_operator.ge]" &&
  resolves ">=" ["Fraction"; "float"] "ka.functions.intify.<locals>.f_new[f=_operator.ge]" &&
  resolves ">=" ["Fraction"; "Combinatoric"] "ka.functions.intify.<locals>.f_new[f=_operator.ge]" &&
  resolves ">=" ["float"; "int"] "ka.functions.intify.<locals>.f_new[f=_operator.ge]" &&
  resolves ">=" ["float"; "Fraction"] "ka.functions.intify.<locals>.f_new[f=_operator.ge]" &&
  resolves ">=" ["float"; "float"] "ka.functions.intify.<locals>.f_new[f=_operator.ge]" &&
  resolves ">=" ["float"; "Combinatoric"] "ka.functions.intify.<locals>.f_new[f=_operator.ge]" &&
  resolves ">=" ["Combinatoric"; "int"] "ka.functions.intify.<locals>.f_new[f=_operator.ge]" &&
  resolves ">=" ["Combinatoric"; "Fraction"] "ka.functions.intify.<locals>.f_new[f=_operator.ge]" &&
  resolves ">=" ["Combinatoric"; "float"] "ka.functions.intify.<locals>.f_new[f=_operator.ge]" &&
  resolves ">=" ["Combinatoric"; "Combinatoric"] "ka.functions.intify.<locals>.f_new[f=_operator.ge]" &&
  resolves ">=" ["Quantity"; "Quantity"] "ka.functions.register_quantities_op.<locals>.f[name='>=',quantity_vector_combiner=None,wrap_in_quantity=False]" &&
  resolves ">=" ["int"; "Quantity"] "ka.functions.register_quantities_op.<locals>.left_is_number[f=ka.functions.register_quantities_op.<locals>.f[name='>=',quantity_vector_combiner=None,wrap_in_quantity=False]]" &&
  resolves ">=" ["Quantity"; "int"] "ka.functions.register_quantities_op.<locals>.right_is_number[f=ka.functions.register_quantities_op.<locals>.f[name='>=',quantity_vector_combiner=None,wrap_in_quantity=False]]" &&
  resolves ">=" ["Fraction"; "Quantity"] "ka.functions.register_quantities_op.<locals>.left_is_number[f=ka.functions.register_quantities_op.<locals>.f[name='>=',quantity_vector_combiner=None,wrap_in_quantity=False]]" &&
  resolves ">=" ["Quantity"; "float"] "ka.functions.register_quantities_op.<locals>.right_is_number[f=ka.functions.register_quantities_op.<locals>.f[name='>=',quantity_vector_combiner=None,wrap_in_quantity=False]]" &&
  resolves "-" ["int"] "_operator.neg" &&
  resolves "-" ["Fraction"] "_operator.neg" &&
  resolves "-" ["float"] "_operator.neg" &&
  resolves "-" ["Combinatoric"] "_operator.neg" &&
  resolves "-" ["Quantity"] "ka.functions.register_numeric_function.<locals>.quantity_function[f=_operator.neg]" &&
  resolves "+" ["int"] "_operator.pos" &&
  resolves "+" ["Fraction"] "_operator.pos" &&
  resolves "+" ["float"] "_operator.pos" &&
  resolves "+" ["Combinatoric"] "_operator.pos" &&
  resolves "+" ["Quantity"] "ka.functions.register_numeric_function.<locals>.quantity_function[f=_operator.pos]" &&
  resolves "abs" ["int"] "builtins.abs" &&
  resolves "abs" ["Fraction"] "builtins.abs" &&
  resolves "abs" ["float"] "builtins.abs" &&
  resolves "abs" ["Combinatoric"] "builtins.abs" &&
  resolves "abs" ["Quantity"] "ka.functions.register_numeric_function.<locals>.quantity_function[f=builtins.abs]" &&
  resolves "floor" ["int"] "math.floor" &&
  resolves "floor" ["Fraction"] "math.floor" &&
  resolves "floor" ["float"] "math.floor" &&
  resolves "floor" ["Combinatoric"] "math.floor" &&
  resolves "floor" ["Quantity"] "ka.functions.register_numeric_function.<locals>.quantity_function[f=math.floor]" &&
  resolves "ceil" ["int"] "math.ceil" &&
  resolves "ceil" ["Fraction"] "math.ceil" &&
  resolves "ceil" ["float"] "math.ceil" &&
  resolves "ceil" ["Combinatoric"] "math.ceil" &&
  resolves "ceil" ["Quantity"] "ka.functions.register_numeric_function.<locals>.quantity_function[f=math.ceil]" &&
  resolves "round" ["int"] "builtins.round" &&
  resolves "round" ["Fraction"] "builtins.round" &&
  resolves "round" ["float"] "builtins.round" &&
  resolves "round" ["Combinatoric"] "builtins.round" &&
  resolves "round" ["Quantity"] "ka.functions.register_numeric_function.<locals>.quantity_function[f=builtins.round]" &&
  resolves "int" ["int"] "class:builtins.int" &&
  resolves "int" ["Fraction"] "class:builtins.int" &&
  resolves "int" ["float"] "class:builtins.int" &&
  resolves "int" ["Combinatoric"] "class:builtins.int" &&
  resolves "int" ["Quantity"] "ka.functions.register_numeric_function.<locals>.quantity_function[f=class:builtins.int]" &&
  resolves "float" ["int"] "class:builtins.float" &&
  resolves "float" ["Fraction"] "class:builtins.float" &&
  resolves "float" ["float"] "class:builtins.float" &&
  resolves "float" ["Combinatoric"] "class:builtins.float" &&
  resolves "float" ["Quantity"] "ka.functions.register_numeric_function.<locals>.quantity_function[f=class:builtins.float]" &&
  resolves "!" ["int"] "ka.utils.lazy_factorial" &&
  rejects "!" ["Combinatoric"] &&
  rejects "!" ["Fraction"] &&
  resolves "C" ["int"; "int"] "ka.utils.lazy_choose" &&
  rejects "C" ["Combinatoric"; "int"] &&
  resolves "in" ["int"; "Array"] "ka.functions.in_array" &&
  resolves "in" ["int"; "Interval"] "ka.functions.in_interval".

Lemma resolution_facts_true : resolution_facts = true.
Proof. vm_compute. reflexivity. Qed.
