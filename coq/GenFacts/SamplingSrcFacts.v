(* SamplingSrcFacts.v — the hand-written sampling model (Model/Sampling.v, with the bridging
   definitions of Model/SamplingBridge.v) against the AST translation of the source
   (Gen/GenSamplingSrc.v, regenerated on every run from src/ka/probability.py, utils.py,
   functions.py).  Every translated function is a state-passing function over the generator
   state (stream, position); each lemma says how many draws are consumed, in which order,
   and which value is computed from them.

   Plain equalities for all parameters and all streams unless a hypothesis is written out.
   Hypotheses are the model's own: valid_params (what the constructor guarantees), the
   generator's contract good_src (draws in [0,1)), and relations between the float kernels
   where the model writes a different but mathematically equal formula (log(1-x) for
   log1p(-x); mu^k e^-mu / k! for exp(k log mu - mu - lgamma(k+1))). *)
From Coq Require Import QArith Qround Qpower Qreduction Bool List Lia Lqa.
From Ka Require Import Model.Sampling Model.SamplingBridge Proofs.SamplingProofs Gen.GenSamplingSrc.
Import ListNotations.
Open Scope Q_scope.

(* ------------------------------------------------------------------------- *)
(* comparisons respect == *)
Lemma Qltb_comp a a' b b' : a == a' -> b == b' -> Qltb a b = Qltb a' b'.
Proof.
  intros Ha Hb. destruct (Qltb a b) eqn:E; symmetry.
  - apply sp_Qltb_lt in E. apply sp_Qltb_lt. rewrite <- Ha, <- Hb. exact E.
  - apply sp_Qltb_ge in E. apply sp_Qltb_ge. rewrite <- Ha, <- Hb. exact E.
Qed.
Lemma Qeqb_false a b : ~ a == b -> Qeqb a b = false.
Proof. intro N. destruct (Qeqb a b) eqn:E; [|reflexivity]. apply sp_Qeqb_eq in E. contradiction. Qed.
Lemma Qis_zero_false q : ~ q == 0 -> Qis_zero q = false.
Proof. intro N. destruct (Qis_zero q) eqn:E; [|reflexivity]. apply sp_Qis_zero in E. contradiction. Qed.

(* ------------------------------------------------------------------------- *)
(* the generator: unit() = random.random() = the next element of the stream *)
Lemma unit_is_source s : g_unit s = let '(u, s1) := unit_draw s in (Ok u, s1).
Proof. reflexivity. Qed.
Lemma unit_consumes_one s : g_unit s = (Ok (src s (pos s)), {| src := src s; pos := S (pos s) |}).
Proof. reflexivity. Qed.

(* ------------------------------------------------------------------------- *)
(* Bernoulli.sample: one draw, 1 iff u < p *)
Lemma Bernoulli_sample_is_source p s :
  g_Bernoulli_sample p s = let '(u, s1) := unit_draw s in (Ok (bernoulli_u p u), s1).
Proof.
  unfold g_Bernoulli_sample, mbind. rewrite unit_consumes_one. unfold unit_draw, bernoulli_u, ret.
  destruct (Qltb (src s (pos s)) p); reflexivity.
Qed.

(* Uniform.sample: one draw, lo + u*(hi-lo) *)
Lemma Uniform_sample_is_source lo hi s :
  g_Uniform_sample lo hi s = let '(u, s1) := unit_draw s in (Ok (uniform_u lo hi u), s1).
Proof. reflexivity. Qed.

(* Exponential.sample: one draw, -log(1-u)/lam; the division raises for lam = 0 (which the
   constructor excludes) AFTER the draw *)
Lemma Exponential_sample_is_source xk lam s : ~ lam == 0 ->
  g_Exponential_sample xk lam s =
  let '(u, s1) := unit_draw s in (Ok (exponential_u (k_log xk) lam u), s1).
Proof.
  intro N. unfold g_Exponential_sample, mbind, lift, pydiv. rewrite unit_consumes_one.
  rewrite (Qis_zero_false _ N). reflexivity.
Qed.
Lemma Exponential_sample_zero_rate xk lam s : lam == 0 ->
  g_Exponential_sample xk lam s = (Raise ZeroDivisionError, {| src := src s; pos := S (pos s) |}).
Proof.
  intro Z. unfold g_Exponential_sample, mbind, lift, pydiv. rewrite unit_consumes_one.
  apply sp_Qis_zero in Z. rewrite Z. reflexivity.
Qed.

(* ------------------------------------------------------------------------- *)
(* UniformInt.sample: one draw; the exact integer arithmetic of the source is the floor the
   model writes, for ALL bounds and ALL rationals u *)
Lemma floor_shift (lo w : Z) (r : Q) :
  Qfloor (inject_Z lo + r * inject_Z w) = (lo + (Qnum r * w) / Z.pos (Qden r))%Z.
Proof.
  destruct r as [n d]. unfold Qfloor, Qplus, Qmult, inject_Z. cbn [Qnum Qden].
  rewrite Pos.mul_1_r, Pos.mul_1_l, Z.mul_1_r.
  rewrite Z.add_comm, Z.div_add by discriminate. lia.
Qed.
Lemma uniformint_ratio_is_floor lo hi u : uniformint_ratio lo hi u = uniformint_u lo hi u.
Proof.
  unfold uniformint_ratio, uniformint_u. rewrite <- floor_shift.
  apply Qfloor_comp. rewrite (Qred_correct u). reflexivity.
Qed.
Lemma UniformInt_sample_is_bridge lo hi s :
  g_UniformInt_sample lo hi s = let '(u, s1) := unit_draw s in (Ok (uniformint_ratio lo hi u), s1).
Proof. reflexivity. Qed.
Lemma UniformInt_sample_is_source lo hi s :
  g_UniformInt_sample lo hi s = let '(u, s1) := unit_draw s in (Ok (uniformint_u lo hi u), s1).
Proof.
  rewrite UniformInt_sample_is_bridge. unfold unit_draw. rewrite uniformint_ratio_is_floor. reflexivity.
Qed.

(* ------------------------------------------------------------------------- *)
(* Binomial.sample: exactly n draws (none for n <= 0), in stream order, counted by `u < p` *)
Lemma Binomial_loop p : forall m lo c s,
  for_nM (fun (_ : Z) (c : Z) => dm t1 <- g_unit; (if Qltb t1 p then (let c := (c + 1)%Z in ret c) else ret c)) lo m c s =
  let '(us, s1) := draws m s in (Ok (c + binomial_us p us)%Z, s1).
Proof.
  induction m as [|m IH]; intros lo c s.
  - cbn [for_nM draws binomial_us]. unfold ret. rewrite Z.add_0_r. reflexivity.
  - cbn [for_nM draws]. unfold mbind at 1. unfold mbind at 1. rewrite unit_consumes_one.
    unfold unit_draw. cbn [binomial_us].
    destruct (Qltb (src s (pos s)) p) eqn:E; unfold ret at 1; rewrite IH;
      destruct (draws m _) as [us s2]; cbn [binomial_us]; unfold bernoulli_u; rewrite E; f_equal; f_equal; lia.
Qed.
Lemma Binomial_sample_is_source n p s :
  g_Binomial_sample n p s = let '(us, s1) := draws (Z.to_nat n) s in (Ok (binomial_us p us), s1).
Proof.
  unfold g_Binomial_sample, for_rangeM. unfold mbind at 1. rewrite Z.sub_0_r, Binomial_loop.
  destruct (draws (Z.to_nat n) s) as [us s1]. reflexivity.
Qed.

(* ------------------------------------------------------------------------- *)
(* Poisson.sample: one draw, then the guarded loop of SamplingBridge.v over the logarithmic
   term — for ALL mu, ALL streams, ALL fuel *)
Definition src_pmf (xk : skernels) (mu : Q) : nat -> Q :=
  poisson_logpmf (k_exp xk) (k_log xk) (k_lgamma xk) mu.

Lemma Poisson_loop xk mu u step :
  step = (fun '(p, k) =>
            if true
            then (let q := k_exp xk (inject_Z k * k_log xk mu - mu - k_lgamma xk (inject_Z (k + 1)%Z)) in
                  let p := p + q in
                  if Qltb u p || (Qltb mu (inject_Z k) && Qeqb (p + q) p) then inr (p, k)
                  else (let k := (k + 1)%Z in inl (p, k)))
            else inr (p, k)) ->
  forall fuel i p,
  match while_loop fuel step (p, Z.of_nat i) with Ok (_, k) => Ok k | Raise e => Raise e end =
  lift_res Z.of_nat (poisson_loop_g (src_pmf xk mu) mu u fuel i p).
Proof.
  intros ->. induction fuel as [|f IH]; intros i p; [reflexivity|].
  cbn [while_loop poisson_loop_g]. unfold src_pmf at 1 2 3, poisson_logpmf.
  destruct (Qltb u _ || _).
  - reflexivity.
  - assert (Hs : (Z.of_nat i + 1)%Z = Z.of_nat (S i)) by lia.
    specialize (IH (S i) (p + src_pmf xk mu i)). rewrite <- Hs in IH. exact IH.
Qed.
Lemma Poisson_sample_is_bridge xk fuel mu s :
  g_Poisson_sample xk fuel mu s =
  let '(u, s1) := unit_draw s in (lift_res Z.of_nat (poisson_gen_g (src_pmf xk mu) mu fuel u), s1).
Proof.
  unfold g_Poisson_sample. unfold mbind at 1. rewrite unit_consumes_one. unfold unit_draw.
  unfold mbind, lift, poisson_gen_g.
  pose proof (Poisson_loop xk mu (src s (pos s)) _ eq_refl fuel O 0) as L. cbn [Z.of_nat] in L.
  destruct (while_loop fuel _ (0, 0%Z)) as [[p k]|e]; rewrite <- L; reflexivity.
Qed.

(* refinement 1: while no term vanishes the stagnation guard is dead and the bridge loop is
   Sampling.v's loop (on any pmf that agrees up to ==; Sampling.v reduces the accumulator) *)
Lemma poisson_loop_g_refines pmf pmf' mu u :
  (forall j, 0 < pmf j) -> (forall j, pmf j == pmf' j) ->
  forall fuel k p p', p == p' -> poisson_loop_g pmf mu u fuel k p = poisson_loop pmf' u fuel k p'.
Proof.
  intros Pos Agree. induction fuel as [|f IH]; intros k p p' E; [reflexivity|].
  cbn [poisson_loop_g poisson_loop].
  assert (E' : p + pmf k == Qred (p' + pmf' k)) by (rewrite Qred_correct, E, Agree; reflexivity).
  rewrite (Qltb_comp u u _ _ (Qeq_refl u) E').
  assert (G : Qeqb (p + pmf k + pmf k) (p + pmf k) = false).
  { apply Qeqb_false. intro C. pose proof (Pos k). lra. }
  rewrite G, andb_false_r, orb_false_r.
  destruct (Qltb u (Qred (p' + pmf' k))); [reflexivity | apply IH; exact E'].
Qed.
Lemma poisson_gen_g_refines pmf pmf' mu fuel u :
  (forall j, 0 < pmf j) -> (forall j, pmf j == pmf' j) ->
  poisson_gen_g pmf mu fuel u = poisson_gen pmf' fuel u.
Proof. intros P A. apply poisson_loop_g_refines; [exact P | exact A | reflexivity]. Qed.

(* refinement 2, no hypothesis on the pmf: a value the guarded loop returns is either the
   inverse-transform value of Sampling.v (least k with u < psum k), or the stagnation exit:
   k past the mean, its term zero, and all the mass summed so far still <= u *)
Lemma poisson_loop_g_spec pmf mu u : forall fuel k p r,
  p == pbefore pmf k -> (forall j, (j < k)%nat -> psum pmf j <= u) ->
  poisson_loop_g pmf mu u fuel k p = Ok r ->
  (forall j, (j < r)%nat -> psum pmf j <= u) /\
  (u < psum pmf r \/ (psum pmf r <= u /\ mu < inject_Z (Z.of_nat r) /\ pmf r == 0)).
Proof.
  induction fuel as [|f IH]; intros k p r Hp Inv H; cbn [poisson_loop_g] in H; [discriminate|].
  assert (E : p + pmf k == psum pmf k) by (rewrite Hp; apply psum_step).
  destruct (Qltb u (p + pmf k)) eqn:C; cbn [orb] in H.
  - injection H as <-. apply sp_Qltb_lt in C. rewrite E in C. split; [exact Inv | left; exact C].
  - apply sp_Qltb_ge in C. rewrite E in C.
    destruct (Qltb mu (inject_Z (Z.of_nat k)) && Qeqb (p + pmf k + pmf k) (p + pmf k)) eqn:G.
    + injection H as <-. apply andb_true_iff in G as [G1 G2].
      apply sp_Qltb_lt in G1. apply sp_Qeqb_eq in G2.
      split; [exact Inv | right]. split; [exact C|]. split; [exact G1 | lra].
    + apply (IH (S k) (p + pmf k) r); [exact E| |exact H].
      intros j Hj. destruct (Nat.eq_dec j k) as [->|N]; [exact C | apply Inv; lia].
Qed.
Lemma poisson_gen_g_spec pmf mu fuel u r : poisson_gen_g pmf mu fuel u = Ok r ->
  (forall j, (j < r)%nat -> psum pmf j <= u) /\
  (u < psum pmf r \/ (psum pmf r <= u /\ mu < inject_Z (Z.of_nat r) /\ pmf r == 0)).
Proof.
  intro H. apply (poisson_loop_g_spec pmf mu u fuel O 0 r); [reflexivity | intros; lia | exact H].
Qed.

(* the exact Poisson term of Model/Prob.v is positive *)
Lemma poisson_pmf_nat_pos (expnegK : Q -> Q) mu k : 0 < mu -> 0 < expnegK mu -> 0 < poisson_pmf_nat expnegK mu k.
Proof.
  intros Hm He. unfold poisson_pmf_nat. rewrite poisson_pmf_term. unfold poisson_term. rewrite Qred_correct.
  assert (P : 0 < mu ^ Z.of_nat k) by (apply Qpower_0_lt; exact Hm).
  assert (F : 0 < inject_Z (factorial (Z.of_nat k)))
    by (change 0 with (inject_Z 0); rewrite <- Zlt_Qlt; apply factorial_pos).
  apply Qmult_lt_0_compat; [exact He|]. apply Qlt_shift_div_l; [exact F | lra].
Qed.

(* Poisson.sample against Sampling.v: under the model's reading of the term
   (exp(k log mu - mu - lgamma(k+1)) IS mu^k e^-mu / k!, with e^-mu > 0) *)
Lemma Poisson_sample_is_source xk fuel (expnegK : Q -> Q) mu s :
  0 < mu -> 0 < expnegK mu ->
  (forall k, src_pmf xk mu k == poisson_pmf_nat expnegK mu k) ->
  g_Poisson_sample xk fuel mu s =
  let '(u, s1) := unit_draw s in
  (lift_res Z.of_nat (poisson_gen (poisson_pmf_nat expnegK mu) fuel u), s1).
Proof.
  intros Hm He A. rewrite Poisson_sample_is_bridge. unfold unit_draw.
  rewrite (poisson_gen_g_refines _ (poisson_pmf_nat expnegK mu)); [reflexivity| |exact A].
  intro j. rewrite A. apply poisson_pmf_nat_pos; assumption.
Qed.

(* ------------------------------------------------------------------------- *)
(* Geometric.sample: no draw when p == 1; otherwise one draw, then the division (which may
   raise AFTER the draw) and max(1, ceil ..).  The source writes log1p(-x) where Sampling.v
   writes log(1-x): equal under that reading of the kernels, for all p and all u *)
Lemma Geometric_sample_is_source xk (logK : Q -> Q) p s :
  (forall x, k_log1p xk (- x) = logK (1 - x)) ->
  g_Geometric_sample xk p s =
  if Qeqb p 1 then (Ok 1%Z, s) else let '(u, s1) := unit_draw s in (geometric_u logK p u, s1).
Proof.
  intro K. unfold g_Geometric_sample. destruct (Qeqb p 1); cbn [negb]; [reflexivity|].
  unfold mbind at 1. rewrite unit_consumes_one. unfold unit_draw, mbind, lift, pydiv, geometric_u, ret.
  rewrite !K. destruct (Qis_zero (logK (1 - p))); reflexivity.
Qed.

(* ------------------------------------------------------------------------- *)
(* utils.erfinv: no draw; ValueError outside [-1,1], 0 at 0, +-inf at +-1, else ndtri((z+1)/2)/sqrt 2 *)
Lemma erfinv_is_source xk z s :
  g_erfinv xk z s =
  (if Qltb z (-1) || Qltb 1 z then Raise ValueError
   else if Qeqb z 0 then Ok (FV 0)
   else if Qeqb z 1 then Ok (FInf false)
   else if Qeqb z (-1) then Ok (FInf true)
   else if Qis_zero (k_sqrt xk 2) then Raise ZeroDivisionError
   else Ok (FV (k_ndtri xk ((z + 1) / 2) / k_sqrt xk 2)), s).
Proof.
  unfold g_erfinv. destruct (Qltb z _ || Qltb _ z); [reflexivity|].
  destruct (Qeqb z (0 # 1)); [reflexivity|]. destruct (Qeqb z (1 # 1)); [reflexivity|].
  destruct (Qeqb z ((-1) # 1)); [reflexivity|].
  unfold mbind, lift, pydiv, ret. change (Qis_zero (2 # 1)) with false. cbv iota.
  destruct (Qis_zero (k_sqrt xk (2 # 1))); reflexivity.
Qed.
Lemma erfinv_open_interval xk z s : -1 < z -> z < 1 -> 0 < k_sqrt xk 2 ->
  g_erfinv xk z s = (Ok (FV (erfinv_fin (k_ndtri xk) (k_sqrt xk 2) z)), s).
Proof.
  intros L U Sq. rewrite erfinv_is_source. unfold erfinv_fin.
  replace (Qltb z (-1)) with false by (symmetry; apply sp_Qltb_ge; lra).
  replace (Qltb 1 z) with false by (symmetry; apply sp_Qltb_ge; lra). cbn [orb].
  destruct (Qeqb z 0); [reflexivity|].
  rewrite (Qeqb_false z 1) by lra. rewrite (Qeqb_false z (-1)) by lra.
  rewrite Qis_zero_false by lra. reflexivity.
Qed.

(* Gaussian.sample followed by simplify_type (what dispatch / sample_multiple do with it):
   one draw; at u = 0 erfinv(-1) = -inf makes the sample -inf and simplify_type raises
   OverflowError, otherwise sd*sqrt 2*erfinv(2u-1) + mu.  Under the constructor's guarantee
   0 < sd, sqrt 2 > 0 and the generator's contract on this draw. *)
Lemma Gaussian_sample_is_source xk mu sd s :
  0 < sd -> 0 < k_sqrt xk 2 -> unit_interval (src s (pos s)) ->
  (dm v <- g_Gaussian_sample xk mu sd; lift (simplify_type (SFlt v))) s =
  let '(u, s1) := unit_draw s in
  (lift_res NFlt (gaussian_u (erfinv_fin (k_ndtri xk) (k_sqrt xk 2)) (k_sqrt xk 2) mu sd u), s1).
Proof.
  intros Hsd Hsq [U0 U1]. unfold g_Gaussian_sample, unit_draw, gaussian_u.
  unfold mbind at 1. unfold mbind at 1. rewrite unit_consumes_one.
  set (u := src s (pos s)) in *. set (s1 := {| src := src s; pos := S (pos s) |}).
  destruct (Qis_zero u) eqn:Z.
  - apply sp_Qis_zero in Z. unfold mbind at 1. rewrite erfinv_is_source.
    replace (Qltb _ (-1)) with false by (symmetry; apply sp_Qltb_ge; lra).
    replace (Qltb 1 _) with false by (symmetry; apply sp_Qltb_ge; lra). cbn [orb].
    rewrite Qeqb_false by lra. rewrite Qeqb_false by lra.
    replace (Qeqb _ (-1)) with true by (symmetry; apply sp_Qeqb_eq; lra).
    unfold ret, lift, xmul, xadd, simplify_type, lift_res.
    rewrite Qis_zero_false by nra. reflexivity.
  - assert (Nz : ~ u == 0) by (intro C; apply sp_Qis_zero in C; congruence).
    unfold mbind at 1. rewrite erfinv_open_interval by lra.
    reflexivity.
Qed.
(* and the draw is consumed whatever the parameters and the stream (also when erfinv or the
   multiplication by infinity misbehave) *)
Lemma Gaussian_sample_consumes xk mu sd s :
  snd (g_Gaussian_sample xk mu sd s) = {| src := src s; pos := S (pos s) |}.
Proof.
  unfold g_Gaussian_sample. unfold mbind at 1. rewrite unit_consumes_one.
  unfold mbind. rewrite erfinv_is_source.
  destruct (Qltb _ _ || Qltb _ _); [reflexivity|]. destruct (Qeqb _ 0); [reflexivity|].
  destruct (Qeqb _ 1); [reflexivity|]. destruct (Qeqb _ (-1)); [reflexivity|].
  destruct (Qis_zero _); reflexivity.
Qed.

(* ------------------------------------------------------------------------- *)
(* every sampler through dispatch (sample(X) = simplify_type(X.sample())) *)
Section Tie.
Variables (xk : skernels) (fuel : nat) (expnegK : Q -> Q) (init : Z -> nat -> Q).
Definition logK : Q -> Q := k_log xk.
Definition sqrt2K : Q := k_sqrt xk 2.
Definition erfinvK : Q -> Q := erfinv_fin (k_ndtri xk) sqrt2K.

(* the model's reading of the float kernels: log1p(-x) is log(1-x); sqrt 2 is positive; and, for
   the Poisson variable at hand, exp(-mu) > 0 and the logarithmic term is the exact one *)
Definition kernel_tie (X : law) : Prop :=
  (forall x, k_log1p xk (- x) = k_log xk (1 - x)) /\
  0 < k_sqrt xk 2 /\
  match X with
  | Poisson mu => 0 < expnegK mu /\ forall k, src_pmf xk mu k == poisson_pmf_nat expnegK mu k
  | _ => True
  end.

Notation sampleK := (sample logK erfinvK sqrt2K expnegK fuel).

Theorem sample_is_source X s :
  kernel_tie X -> valid_params X -> unit_interval (src s (pos s)) ->
  sampleK X s = g_reg_sample_RandomVariable xk fuel X s.
Proof.
  intros (K1 & K2 & K3) V U. unfold g_reg_sample_RandomVariable.
  destruct X as [n p|mu|p|p|lo hi|lam|lo hi|mu sd]; cbn [sample g_sample valid_params] in *.
  - unfold mbind at 1. unfold mbind at 1. rewrite Binomial_sample_is_source.
    destruct (draws (Z.to_nat n) s) as [us s1]. reflexivity.
  - destruct K3 as [He A].
    unfold mbind at 1. unfold mbind at 1. rewrite (Poisson_sample_is_source xk fuel expnegK mu s V He A).
    unfold unit_draw, poisson_gen. destruct (poisson_loop _ _ fuel 0%nat 0); reflexivity.
  - unfold mbind at 1. unfold mbind at 1. rewrite (Geometric_sample_is_source xk logK p s K1).
    destruct (Qeqb p 1); [reflexivity|]. unfold unit_draw.
    destruct (geometric_u logK p _); reflexivity.
  - unfold mbind at 1. unfold mbind at 1. rewrite Bernoulli_sample_is_source. reflexivity.
  - unfold mbind at 1. unfold mbind at 1. rewrite UniformInt_sample_is_source. reflexivity.
  - unfold mbind at 1. unfold mbind at 1. rewrite Exponential_sample_is_source by lra. reflexivity.
  - unfold mbind at 1. unfold mbind at 1. rewrite Uniform_sample_is_source. reflexivity.
  - pose proof (Gaussian_sample_is_source xk mu sd s V K2 U) as G. unfold mbind at 1 in G.
    unfold mbind at 1. unfold mbind at 1.
    destruct (g_Gaussian_sample xk mu sd s) as [[v|e] s1] eqn:E; exact (eq_sym G).
Qed.

(* hypothesis-free: the number of draws a sample consumes is a function of the parameters
   alone (ndraws: Binomial n -> n, Geometric 1 -> 0, otherwise 1) — also when the sampler raises *)
Theorem sample_consumes X s : snd (g_sample xk fuel X s) = advance s (ndraws X).
Proof.
  unfold advance. destruct X as [n p|mu|p|p|lo hi|lam|lo hi|mu sd]; cbn [g_sample ndraws].
  - unfold mbind. rewrite Binomial_sample_is_source.
    destruct (draws (Z.to_nat n) s) as [us s1] eqn:E.
    destruct (draws_spec _ _ _ _ E) as (_ & Hs & Hp & _). cbn [snd]. destruct s1 as [f i]. cbn in *. congruence.
  - unfold mbind. rewrite Poisson_sample_is_bridge. unfold unit_draw.
    destruct (poisson_gen_g _ _ _ _); cbn; rewrite Nat.add_1_r; reflexivity.
  - unfold g_Geometric_sample. destruct (Qeqb p 1); cbn [negb].
    + cbn. rewrite Nat.add_0_r. destruct s; reflexivity.
    + unfold mbind at 1. unfold mbind at 1. rewrite unit_consumes_one. unfold mbind, lift, pydiv.
      destruct (Qis_zero _); cbn; rewrite Nat.add_1_r; reflexivity.
  - unfold mbind. rewrite Bernoulli_sample_is_source. cbn. rewrite Nat.add_1_r. reflexivity.
  - unfold mbind. rewrite UniformInt_sample_is_source. cbn. rewrite Nat.add_1_r. reflexivity.
  - unfold g_Exponential_sample, mbind, lift, pydiv. rewrite unit_consumes_one.
    destruct (Qis_zero lam); cbn; rewrite Nat.add_1_r; reflexivity.
  - unfold mbind. rewrite Uniform_sample_is_source. cbn. rewrite Nat.add_1_r. reflexivity.
  - unfold mbind. pose proof (Gaussian_sample_consumes xk mu sd s) as G.
    destruct (g_Gaussian_sample xk mu sd s) as [[v|e] s1]; cbn [snd] in *; rewrite G, Nat.add_1_r; reflexivity.
Qed.

(* ------------------------------------------------------------------------- *)
(* sample_multiple: range(n) single samples in order, each simplified; n <= 0 gives none;
   the first exception ends it with the draws made so far consumed *)
Lemma sample_multiple_unroll X : forall m lo s,
  listcomp_n (fun _ : Z => g_reg_sample_RandomVariable xk fuel X) lo m s =
  match m with
  | O => (Ok [], s)
  | S k => match g_reg_sample_RandomVariable xk fuel X s with
           | (Ok v, s1) => match listcomp_n (fun _ : Z => g_reg_sample_RandomVariable xk fuel X) (lo + 1)%Z k s1 with
                           | (Ok l, s2) => (Ok (v :: l), s2)
                           | (Raise e, s2) => (Raise e, s2)
                           end
           | (Raise e, s1) => (Raise e, s1)
           end
  end.
Proof.
  intros [|k] lo s; [reflexivity|]. cbn [listcomp_n]. unfold mbind at 1.
  destruct (g_reg_sample_RandomVariable xk fuel X s) as [[v|e] s1]; [|reflexivity].
  unfold mbind. destruct (listcomp_n _ _ k s1) as [[l|e] s2]; reflexivity.
Qed.
Lemma sample_multiple_shape X n s :
  g_sample_multiple xk fuel X n s =
  listcomp_n (fun _ : Z => g_reg_sample_RandomVariable xk fuel X) 0%Z (Z.to_nat n) s.
Proof. unfold g_sample_multiple, listcompM. rewrite Z.sub_0_r. reflexivity. Qed.

(* hypothesis-free: sample(X, n+1) is one single sample followed by sample(X, n) on the state it
   leaves (so sample(X, n) is n successive single samples, in order); and a delivered array has
   Z.to_nat n elements and has consumed n * ndraws X draws *)
Lemma listcomp_const_lo {A : Type} (f : M A) : forall m lo lo' s,
  listcomp_n (fun _ : Z => f) lo m s = listcomp_n (fun _ : Z => f) lo' m s.
Proof.
  induction m as [|m IH]; intros lo lo' s; [reflexivity|]. cbn [listcomp_n]. unfold mbind at 1 3.
  destruct (f s) as [[v|e] s1]; [|reflexivity]. unfold mbind. rewrite (IH (lo + 1)%Z (lo' + 1)%Z s1). reflexivity.
Qed.
Theorem sample_multiple_successive_source X n s : (0 <= n)%Z ->
  g_sample_multiple xk fuel X (n + 1) s =
  match g_reg_sample_RandomVariable xk fuel X s with
  | (Ok v, s1) => match g_sample_multiple xk fuel X n s1 with
                  | (Ok l, s2) => (Ok (v :: l), s2)
                  | (Raise e, s2) => (Raise e, s2)
                  end
  | (Raise e, s1) => (Raise e, s1)
  end.
Proof.
  intro Hn. rewrite sample_multiple_shape. replace (Z.to_nat (n + 1)) with (S (Z.to_nat n)) by lia.
  rewrite sample_multiple_unroll.
  destruct (g_reg_sample_RandomVariable xk fuel X s) as [[v|e] s1]; [|reflexivity].
  rewrite sample_multiple_shape. rewrite (listcomp_const_lo _ _ (0 + 1)%Z 0%Z). reflexivity.
Qed.
Lemma reg_sample_consumes X s : snd (g_reg_sample_RandomVariable xk fuel X s) = advance s (ndraws X).
Proof.
  unfold g_reg_sample_RandomVariable, mbind. pose proof (sample_consumes X s) as C.
  destruct (g_sample xk fuel X s) as [[v|e] s1]; cbn [snd] in *; [|exact C].
  unfold lift. exact C.
Qed.
Theorem sample_multiple_consumes X n s l s' :
  g_sample_multiple xk fuel X n s = (Ok l, s') ->
  List.length l = Z.to_nat n /\ s' = advance s (Z.to_nat n * ndraws X).
Proof.
  rewrite sample_multiple_shape. generalize 0%Z as lo. revert s l s'.
  induction (Z.to_nat n) as [|m IH]; intros s l s' lo H.
  - cbn in H. injection H as <- <-. split; [reflexivity|]. unfold advance. cbn. rewrite Nat.add_0_r. destruct s; reflexivity.
  - rewrite sample_multiple_unroll in H. pose proof (reg_sample_consumes X s) as C.
    destruct (g_reg_sample_RandomVariable xk fuel X s) as [[v|e] s1]; [|discriminate]. cbn [snd] in C.
    destruct (listcomp_n _ (lo + 1)%Z m s1) as [[l1|e] s2] eqn:E; [|discriminate].
    injection H as <- <-. destruct (IH _ _ _ _ E) as [L ->]. split; [cbn; congruence|].
    rewrite C. unfold advance. cbn [src pos]. f_equal. lia.
Qed.

Theorem sample_multiple_is_source X n s :
  kernel_tie X -> valid_params X -> good_src (src s) ->
  sample_multiple logK erfinvK sqrt2K expnegK fuel X n s = g_sample_multiple xk fuel X n s.
Proof.
  intros K V G. rewrite sample_multiple_shape. unfold sample_multiple.
  generalize 0%Z as lo. revert s G. induction (Z.to_nat n) as [|m IH]; intros s G lo.
  - reflexivity.
  - rewrite sample_multiple_unroll. cbn [sample_n].
    rewrite (sample_is_source X s K V (G (pos s))).
    destruct (g_reg_sample_RandomVariable xk fuel X s) as [[v|e] s1] eqn:E; [|reflexivity].
    assert (G1 : good_src (src s1)).
    { rewrite <- (sample_is_source X s K V (G (pos s))) in E. rewrite (sample_src _ _ _ _ _ _ _ _ _ E). exact G. }
    rewrite (IH s1 G1 (lo + 1)%Z). reflexivity.
Qed.

(* ------------------------------------------------------------------------- *)
(* the registered operations against run_op *)
Definition out_num (r : res num * rstate) : outv * rstate :=
  match r with (Ok v, s1) => (VNum v, s1) | (Raise e, s1) => (VErr e, s1) end.
Definition out_arr (r : res (list num) * rstate) : outv * rstate :=
  match r with (Ok l, s1) => (VArr l, s1) | (Raise e, s1) => (VErr e, s1) end.
Notation run_opK := (run_op logK erfinvK sqrt2K expnegK fuel init).

(* rand() = the next draw, unconditionally *)
Theorem rand_is_source s : run_opK ORand s = out_num (g_reg_rand s).
Proof. reflexivity. Qed.

(* seed(k): the stream becomes init k at position 0 WHATEVER the state was (random.seed is the
   trusted primitive rnd_seed; what is checked is that `seed` is registered as exactly that) *)
Theorem seed_is_source k s :
  g_reg_seed_Integral init k s = (Ok tt, snd (run_opK (OSeed k) s)) /\ fst (run_opK (OSeed k) s) = VNone.
Proof. split; reflexivity. Qed.
Theorem seed_forgets k s1 s2 : g_reg_seed_Integral init k s1 = g_reg_seed_Integral init k s2.
Proof. reflexivity. Qed.

Theorem sample_op_is_source X X' s :
  kernel_tie X -> good_src (src s) -> make_rv X = Ok X' ->
  run_opK (OSample X) s = out_num (g_reg_sample_RandomVariable xk fuel X' s).
Proof.
  intros K G Mk. cbn [run_op]. rewrite Mk. destruct (make_rv_ok _ _ Mk) as [-> V].
  rewrite (sample_is_source X s K V (G (pos s))). reflexivity.
Qed.
Theorem sample_n_op_is_source X X' n s :
  kernel_tie X -> good_src (src s) -> make_rv X = Ok X' ->
  run_opK (OSampleN X n) s = out_arr (g_reg_sample_RandomVariable_Integral xk fuel X' n s).
Proof.
  intros K G Mk. cbn [run_op]. rewrite Mk. destruct (make_rv_ok _ _ Mk) as [-> V].
  unfold g_reg_sample_RandomVariable_Integral.
  rewrite (sample_multiple_is_source X n s K V G). reflexivity.
Qed.

End Tie.

(* the registrations found in functions.py: rand / seed / sample, with these argument types,
   each once, each translated *)
Lemma registrations_are_source :
  g_sampling_registrations =
  [("rand", [], "g_reg_rand"); ("seed", ["Integral"], "g_reg_seed_Integral");
   ("sample", ["RandomVariable"], "g_reg_sample_RandomVariable");
   ("sample", ["RandomVariable"; "Integral"], "g_reg_sample_RandomVariable_Integral")]%string.
Proof. reflexivity. Qed.

(* ------------------------------------------------------------------------- *)
(* non-vacuity: kernel_tie is satisfiable, e.g. for Poisson(3).  With log = log1p = the constant 1,
   lgamma = 0, sqrt = 1, the logarithmic expression is k - 3, from which exp := the exact Poisson
   term at the index x + 3 (with e^-3 := 1/20) recovers k. *)
Definition wit : skernels :=
  {| k_log := fun _ => 1; k_log1p := fun _ => 1;
     k_exp := fun x => poisson_pmf 3 (1 # 20) (Qfloor (x + 3)); k_lgamma := fun _ => 0;
     k_sqrt := fun _ => 1; k_ndtri := fun x => x |}.
Example kernel_tie_satisfiable : kernel_tie wit (fun _ => 1 # 20) (Poisson 3).
Proof.
  split; [reflexivity|]. split; [reflexivity|]. split; [reflexivity|].
  intro k. unfold src_pmf, poisson_logpmf, poisson_pmf_nat, wit; cbn [k_exp k_log k_lgamma].
  rewrite (Qfloor_comp _ (inject_Z (Z.of_nat k))) by ring. rewrite Qfloor_Z. reflexivity.
Qed.
(* ... so the tie theorem delivers an unconditional equality there (a constant stream 1/2) *)
Example sample_is_source_witness :
  sample (logK wit) (erfinvK wit) (sqrt2K wit) (fun _ => 1 # 20) 50 (Poisson 3) {| src := fun _ => 1 # 2; pos := 4 |} =
  g_reg_sample_RandomVariable wit 50 (Poisson 3) {| src := fun _ => 1 # 2; pos := 4 |}.
Proof.
  apply sample_is_source; [exact kernel_tie_satisfiable | reflexivity | split; [discriminate | reflexivity]].
Qed.
Example sample_source_witness_value :
  g_reg_sample_RandomVariable wit 50 (Poisson 3) {| src := fun _ => 1 # 2; pos := 4 |} =
  (Ok (NInt 3), {| src := fun _ => 1 # 2; pos := 5 |}).
Proof. vm_compute. reflexivity. Qed.

Print Assumptions unit_is_source.
Print Assumptions unit_consumes_one.
Print Assumptions Bernoulli_sample_is_source.
Print Assumptions Uniform_sample_is_source.
Print Assumptions Exponential_sample_is_source.
Print Assumptions Exponential_sample_zero_rate.
Print Assumptions uniformint_ratio_is_floor.
Print Assumptions UniformInt_sample_is_bridge.
Print Assumptions UniformInt_sample_is_source.
Print Assumptions Binomial_sample_is_source.
Print Assumptions Poisson_sample_is_bridge.
Print Assumptions poisson_gen_g_refines.
Print Assumptions poisson_gen_g_spec.
Print Assumptions Poisson_sample_is_source.
Print Assumptions Geometric_sample_is_source.
Print Assumptions erfinv_is_source.
Print Assumptions Gaussian_sample_is_source.
Print Assumptions Gaussian_sample_consumes.
Print Assumptions sample_is_source.
Print Assumptions sample_consumes.
Print Assumptions sample_multiple_successive_source.
Print Assumptions sample_multiple_consumes.
Print Assumptions sample_multiple_is_source.
Print Assumptions rand_is_source.
Print Assumptions seed_is_source.
Print Assumptions seed_forgets.
Print Assumptions sample_op_is_source.
Print Assumptions sample_n_op_is_source.
Print Assumptions registrations_are_source.
Print Assumptions kernel_tie_satisfiable.
