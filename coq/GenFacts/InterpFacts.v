(* Facts about the regenerated except lists and command table, re-proved on every run. *)
From Ka Require Import Model.Exec.
Local Open Scope string_scope.

Lemma lex_ok_true : lex_ok = true.
Proof. vm_compute. reflexivity. Qed.
Lemma parse_ok_true : parse_ok = true.
Proof. vm_compute. reflexivity. Qed.
Lemma eval_ok_true : eval_ok = true.
Proof. vm_compute. reflexivity. Qed.
Lemma host_escape_true : host_escape = true.
Proof. vm_compute. reflexivity. Qed.

(* the unit-info printer catches the prefix-on-offset-unit error of lookup_unit *)
Lemma unit_info_catches : catches (fst (fst (nth 0 (handlers_of "interpret.print_unit_info" 0) ([], [], [])))) "InvalidPrefixError" = true.
Proof. vm_compute. reflexivity. Qed.

(* every command implementation is one of the known printers (so the totality argument below
   covers the whole table), and arities are 0 or 1 *)
Definition known_impls : list string :=
  ["ka.interpret.interp_quit"; "ka.interpret.interp_help"; "ka.interpret.print_unit_info";
   "ka.interpret.print_units"; "ka.interpret.print_cash_units"; "ka.interpret.print_function_info";
   "ka.interpret.print_functions"].
Lemma commands_known :
  forallb (fun c => mem_str (snd c) known_impls && Nat.leb (snd (fst c)) 1) commands = true.
Proof. vm_compute. reflexivity. Qed.
