(* DispatchSrcFacts.v — the hand-written overload-resolution model (Model/Dispatch.v) IS the source.

   Gen/GenDispatchSrc.v is regenerated on every run from the Python AST of ka/functions.py
   (FunctionSignature, FunctionHeader, dispatch, lookup_function, get_closest_match, types_below,
   type_below, register_function, register_binary_op, register_commutative_op) and ka/types.py
   (is_type, TypeAlias) by harness/trans_dispatch.py; the trusted construct mapping is in the header
   of the generated file.  Every lemma here says: the model's definition equals the translation of
   the source, for all arguments and every world W (value type, kind_of, coerce_to, simplify_type,
   call, ..).  The generated functions return [dres (V W) T] (Python can raise), the model's are
   pure, so the statements read  DOk (model args) = g_f W args : the source raises nothing and
   returns the model's value.  The model works on the regenerated registry (types are indices,
   values are kinds); [erase_sig] forgets the Cls/Alias tag of a signature's types and the lemmas
   hold for EVERY tagging, [map (kind_of W)] takes values to kinds.

   Where the model has no counterpart (coerce_args, the error payloads, registration) the
   structurally recursive reading is defined here (m_...) and proved equal to the generated
   index-loop / state-passing definition.

   A change of meaning in a translated function breaks its lemma (or leaves GenDispatchSrc without
   the definition: fail closed). *)
From Coq Require Import Arith Lia List String Bool.
From Ka Require Import Model.Dispatch Gen.GenDispatchSrc.
Import ListNotations.
Local Open Scope string_scope.
Local Open Scope list_scope.
Local Open Scope nat_scope.

(* ------------------------------------------------------------------ plumbing *)
Lemma dbind_DOk_r {VT A} (r : dres VT A) : dbind r (fun x => DOk x) = r.
Proof. destruct r; reflexivity. Qed.

Lemma nth_error_mid {A} (pre : list A) x suf : nth_error (pre ++ x :: suf) (List.length pre) = Some x.
Proof. induction pre as [|y pre IH]; cbn; auto. Qed.

Lemma py_index_mid {VT A} (pre : list A) x suf : @py_index VT A (pre ++ x :: suf) (List.length pre) = DOk x.
Proof. unfold py_index. rewrite nth_error_mid. reflexivity. Qed.

Lemma py_index_end {VT A} (l : list A) : @py_index VT A l (List.length l) = DRaise (EExn IndexError).
Proof.
  unfold py_index. destruct (nth_error l (List.length l)) eqn:E; [|reflexivity].
  exfalso. assert (H : nth_error l (List.length l) <> None) by congruence.
  apply nth_error_Some in H. lia.
Qed.

Lemma app_cons_assoc {A} (pre : list A) x suf : pre ++ x :: suf = (pre ++ [x]) ++ suf.
Proof. rewrite <- app_assoc. reflexivity. Qed.

(* forgetting the Cls / Alias tags: a Python-level signature as the regenerated registry shows it *)
Definition erase_sig (impl : string) (p : psig) : gsig :=
  {| g_impl := impl; g_args := map ix (ps_args p); g_vararg := option_map ix (ps_vararg p);
     g_kws := map (fun kv => (fst kv, ix (snd kv))) (ps_kws p) |}.
Definition erase_hdr (h : hdr) : gsig := erase_sig (h_f h) (h_sig h).

Lemma ix_tyobj_of i : ix (tyobj_of i) = i.
Proof. unfold tyobj_of. destruct (existsb _ _); reflexivity. Qed.

Lemma map_ix_tyobj_of l : map ix (map tyobj_of l) = l.
Proof. induction l as [|x l IH]; cbn; [reflexivity|]. rewrite ix_tyobj_of, IH. reflexivity. Qed.

Lemma erase_header_of name s : erase_hdr (header_of name s) = s.
Proof.
  destruct s as [impl args va kws]. unfold erase_hdr, erase_sig, header_of, psig_of. cbn. f_equal.
  - apply map_ix_tyobj_of.
  - destruct va; cbn; [rewrite ix_tyobj_of|]; reflexivity.
  - induction kws as [|[k t] kws IH]; cbn; [reflexivity|]. rewrite ix_tyobj_of, IH. reflexivity.
Qed.

Section Facts.
Variable W : world.

(* ------------------------------------------------------------------ types.py: is_type; functions.py: type_below
   TypeAlias objects are unwrapped to the class they stand for, then Python's isinstance / issubclass
   (the regenerated tables) decides. *)
Lemma is_type_is_source x t : DOk (isinst (kind_of W x) (ix t)) = g_is_type W x t.
Proof. unfold g_is_type. destruct t; reflexivity. Qed.

Lemma type_below_is_source t1 t2 : DOk (subcls (ix t1) (ix t2)) = g_type_below W t1 t2.
Proof. unfold g_type_below. destruct t1, t2; reflexivity. Qed.

(* types_below: all(type_below(tA, tB) for tA, tB in zip(A.args, B.args)) *)
Lemma types_below_lists a b :
  DOk (zip_all subcls (map ix a) (map ix b))
  = allM (fun '(tA, tB) => g_type_below W tA tB) (combine a b).
Proof.
  revert b; induction a as [|x a IH]; intros [|y b]; cbn [map zip_all combine allM]; try reflexivity.
  rewrite <- type_below_is_source. cbn [dbind]. destruct (subcls (ix x) (ix y)); cbn [andb]; [apply IH|reflexivity].
Qed.

Lemma types_below_is_source i1 i2 A B :
  DOk (types_below (erase_sig i1 A) (erase_sig i2 B)) = g_types_below W A B.
Proof. unfold g_types_below, types_below, erase_sig. cbn [g_args]. apply types_below_lists. Qed.

(* ------------------------------------------------------------------ FunctionSignature.__init__ / FunctionHeader.__init__ *)
Lemma FunctionSignature_is_source args vararg kws :
  {| ps_args := args; ps_vararg := vararg; ps_kws := match kws with Some l => l | None => [] end |}
  = g_FunctionSignature W args vararg kws.
Proof. unfold g_FunctionSignature, py_or_dict. reflexivity. Qed.

Lemma FunctionHeader_is_source name f sig :
  {| h_name := name; h_f := f; h_sig := sig |} = g_FunctionHeader W name f sig.
Proof. reflexivity. Qed.

(* ------------------------------------------------------------------ FunctionSignature.matches
   the index loop of the source against the structural match_pos of the model *)
Definition finish_match (p : psig) (ks : list nat) (r : option (list nat)) : bool :=
  match r with
  | None => false
  | Some [] => true
  | Some (_ :: _) => match ps_vararg p with Some vt => forallb (fun k => isinst k (ix vt)) ks | None => false end
  end.

Lemma allM_is_type vt (args : list (V W)) :
  allM (fun arg => g_is_type W arg vt) args = DOk (forallb (fun k => isinst k (ix vt)) (map (kind_of W) args)).
Proof.
  induction args as [|a args IH]; cbn [allM map forallb]; [reflexivity|].
  rewrite <- is_type_is_source. cbn [dbind]. destruct (isinst (kind_of W a) (ix vt)); cbn [andb]; [apply IH|reflexivity].
Qed.

Lemma matches_loop p args : forall suf pre apre asuf fuel,
  ps_args p = pre ++ suf -> args = apre ++ asuf -> List.length pre = List.length apre ->
  List.length suf < fuel ->
  g_FunctionSignature_matches_loop1 W fuel p args (List.length pre)
  = DOk (finish_match p (map (kind_of W) args) (match_pos (map ix suf) (map (kind_of W) asuf))).
Proof.
  induction suf as [|t suf IH]; intros pre apre asuf fuel Hp Ha Hl Hf;
    (destruct fuel as [|fuel]; [cbn in Hf; lia|]); cbn [g_FunctionSignature_matches_loop1].
  - (* loop exit: i = len(self.args) *)
    assert (L1 : List.length (ps_args p) = List.length pre) by (rewrite Hp, app_nil_r; reflexivity).
    assert (L2 : List.length args = List.length pre + List.length asuf) by (rewrite Ha, app_length, Hl; reflexivity).
    rewrite L1, Nat.ltb_irrefl, L2. cbn [map match_pos].
    destruct asuf as [|a asuf]; cbn [List.length map].
    + rewrite Nat.add_0_r, Nat.eqb_refl. reflexivity.
    + replace (List.length pre =? List.length pre + S (List.length asuf)) with false
        by (symmetry; apply Nat.eqb_neq; lia).
      cbn [finish_match]. destruct (ps_vararg p) as [vt|]; [|reflexivity].
      rewrite allM_is_type. rewrite ?dbind_DOk_r. cbn [dbind].
      destruct (forallb _ _); reflexivity.
  - (* one more positional parameter *)
    assert (Hlt : (List.length pre <? List.length (ps_args p)) = true).
    { apply Nat.ltb_lt. rewrite Hp, app_length. cbn. lia. }
    assert (L2 : List.length args = List.length pre + List.length asuf) by (rewrite Ha, app_length, Hl; reflexivity).
    rewrite Hlt, L2.
    destruct asuf as [|a asuf]; cbn [List.length map match_pos].
    + rewrite Nat.add_0_r, Nat.leb_refl. reflexivity.
    + replace (List.length pre + S (List.length asuf) <=? List.length pre) with false
        by (symmetry; apply Nat.leb_gt; lia).
      assert (Ei : @py_index (V W) _ (ps_args p) (List.length pre) = DOk t) by (rewrite Hp; apply py_index_mid).
      assert (Ea : @py_index (V W) _ args (List.length pre) = DOk a) by (rewrite Ha, Hl; apply py_index_mid).
      rewrite ?Ei, ?Ea. cbn [dbind]. rewrite ?Ei, ?Ea. cbn [dbind].
      rewrite <- is_type_is_source. cbn [dbind].
      destruct (isinst (kind_of W a) (ix t)); [|reflexivity].
      replace (List.length pre + 1) with (List.length (pre ++ [t])) by (rewrite app_length; cbn; lia).
      apply (IH (pre ++ [t]) (apre ++ [a]) asuf fuel).
      * rewrite Hp. apply app_cons_assoc.
      * rewrite Ha. apply app_cons_assoc.
      * rewrite !app_length, Hl. reflexivity.
      * cbn in Hf. lia.
Qed.

Theorem matches_is_source impl p args :
  DOk (sig_matches (erase_sig impl p) (map (kind_of W) args)) = g_FunctionSignature_matches W p args.
Proof.
  unfold g_FunctionSignature_matches. cbv zeta.
  pose proof (matches_loop p args (ps_args p) [] [] args (S (List.length (ps_args p))) eq_refl eq_refl eq_refl (Nat.lt_succ_diag_r _)) as H.
  cbn [List.length] in H. rewrite H. f_equal. unfold sig_matches, finish_match, erase_sig. cbn [g_args g_vararg].
  destruct (match_pos _ _) as [[|? ?]|]; try reflexivity.
  destruct (ps_vararg p); reflexivity.
Qed.

Lemma header_sig_matches_is_source h args :
  DOk (sig_matches (erase_hdr h) (map (kind_of W) args)) = g_FunctionHeader_sig_matches W h args.
Proof. unfold g_FunctionHeader_sig_matches, erase_hdr. apply matches_is_source. Qed.

(* ------------------------------------------------------------------ FunctionSignature.coerce_args / coerce_kwarg
   The model has no coercion (its decision stops at "which body runs").  The structural reading: the
   positional parameters pairwise (IndexError if the arguments run out: the source assumes a
   matching signature), every further argument against the vararg type, left to right. *)
Fixpoint m_coerce_pos (sargs : list tyobj) (vt : option tyobj) (args : list (V W)) : dres (V W) (list (V W)) :=
  match sargs with
  | [] => mapM (fun a => coerce_to W a vt) args
  | t :: sargs' =>
      match args with
      | [] => DRaise (EExn IndexError)
      | a :: args' => dbind (coerce_to W a (Some t)) (fun c => dbind (m_coerce_pos sargs' vt args') (fun r => DOk (c :: r)))
      end
  end.
Definition m_coerce_args (p : psig) (args : list (V W)) := m_coerce_pos (ps_args p) (ps_vararg p) args.

Lemma coerce_loop2 p args : forall asuf apre acc fuel,
  args = apre ++ asuf -> List.length asuf < fuel ->
  g_FunctionSignature_coerce_args_loop2 W fuel p args acc (List.length apre)
  = dbind (mapM (fun a => coerce_to W a (ps_vararg p)) asuf) (fun r => DOk (acc ++ r)).
Proof.
  induction asuf as [|a asuf IH]; intros apre acc fuel Ha Hf;
    (destruct fuel as [|fuel]; [cbn in Hf; lia|]); cbn [g_FunctionSignature_coerce_args_loop2 mapM dbind].
  - rewrite Ha, app_nil_r, Nat.ltb_irrefl, app_nil_r. reflexivity.
  - assert (Hlt : (List.length apre <? List.length args) = true).
    { apply Nat.ltb_lt. rewrite Ha, app_length. cbn. lia. }
    assert (Ea : @py_index (V W) _ args (List.length apre) = DOk a) by (rewrite Ha; apply py_index_mid).
    rewrite Hlt, Ea. cbn [dbind].
    destruct (coerce_to W a (ps_vararg p)) as [c|e]; cbn [dbind]; [|reflexivity].
    replace (List.length apre + 1) with (List.length (apre ++ [a])) by (rewrite app_length; cbn; lia).
    rewrite (IH (apre ++ [a]) (acc ++ [c]) fuel); [|rewrite Ha; apply app_cons_assoc|cbn in Hf; lia].
    destruct (mapM _ asuf) as [r|e]; cbn [dbind]; [|reflexivity].
    rewrite <- app_assoc. reflexivity.
Qed.

Lemma coerce_loop1 p args : forall suf pre apre asuf acc fuel,
  ps_args p = pre ++ suf -> args = apre ++ asuf -> List.length pre = List.length apre ->
  List.length suf < fuel ->
  g_FunctionSignature_coerce_args_loop1 W fuel p args acc (List.length pre)
  = dbind (m_coerce_pos suf (ps_vararg p) asuf) (fun r => DOk (acc ++ r)).
Proof.
  induction suf as [|t suf IH]; intros pre apre asuf acc fuel Hp Ha Hl Hf;
    (destruct fuel as [|fuel]; [cbn in Hf; lia|]); cbn [g_FunctionSignature_coerce_args_loop1 m_coerce_pos].
  - assert (L1 : List.length (ps_args p) = List.length pre) by (rewrite Hp, app_nil_r; reflexivity).
    rewrite L1, Nat.ltb_irrefl, Hl.
    apply coerce_loop2; [exact Ha|]. rewrite Ha, app_length. lia.
  - assert (Hlt : (List.length pre <? List.length (ps_args p)) = true).
    { apply Nat.ltb_lt. rewrite Hp, app_length. cbn. lia. }
    rewrite Hlt.
    destruct asuf as [|a asuf].
    + assert (Ea : @py_index (V W) _ args (List.length pre) = DRaise (EExn IndexError)).
      { rewrite Ha, app_nil_r, Hl. apply py_index_end. }
      rewrite Ea. reflexivity.
    + assert (Ei : @py_index (V W) _ (ps_args p) (List.length pre) = DOk t) by (rewrite Hp; apply py_index_mid).
      assert (Ea : @py_index (V W) _ args (List.length pre) = DOk a) by (rewrite Ha, Hl; apply py_index_mid).
      rewrite ?Ei, ?Ea. cbn [dbind]. rewrite ?Ei, ?Ea. cbn [dbind].
      destruct (coerce_to W a (Some t)) as [c|e]; cbn [dbind]; [|reflexivity].
      replace (List.length pre + 1) with (List.length (pre ++ [t])) by (rewrite app_length; cbn; lia).
      rewrite (IH (pre ++ [t]) (apre ++ [a]) asuf (acc ++ [c]) fuel);
        [|rewrite Hp; apply app_cons_assoc|rewrite Ha; apply app_cons_assoc|rewrite !app_length, Hl; reflexivity|cbn in Hf; lia].
      destruct (m_coerce_pos suf (ps_vararg p) asuf) as [r|e]; cbn [dbind]; [|reflexivity].
      rewrite <- app_assoc. reflexivity.
Qed.

Theorem coerce_args_is_source p args : m_coerce_args p args = g_FunctionSignature_coerce_args W p args.
Proof.
  unfold g_FunctionSignature_coerce_args, m_coerce_args. cbv zeta.
  pose proof (coerce_loop1 p args (ps_args p) [] [] args [] (S (List.length (ps_args p))) eq_refl eq_refl eq_refl (Nat.lt_succ_diag_r _)) as H.
  cbn [List.length] in H. rewrite H. cbn [app]. symmetry. apply dbind_DOk_r.
Qed.

(* coerce_kwarg: self.kw_args[k] (KeyError if undeclared), then coerce_to *)
Definition m_coerce_kwarg (p : psig) (k : string) (v : V W) : dres (V W) (V W) :=
  match assoc k (ps_kws p) with
  | Some t => coerce_to W v (Some t)
  | None => DRaise (EPy "KeyError")
  end.
Lemma coerce_kwarg_is_source p k v : m_coerce_kwarg p k v = g_FunctionSignature_coerce_kwarg W p k v.
Proof.
  unfold g_FunctionSignature_coerce_kwarg, m_coerce_kwarg, py_dict_index.
  destruct (assoc k (ps_kws p)); reflexivity.
Qed.

Lemma header_coerce_args_is_source h args : m_coerce_args (h_sig h) args = g_FunctionHeader_coerce_args W h args.
Proof. unfold g_FunctionHeader_coerce_args. apply coerce_args_is_source. Qed.
Lemma header_coerce_kwarg_is_source h k v : m_coerce_kwarg (h_sig h) k v = g_FunctionHeader_coerce_kwarg W h k v.
Proof. unfold g_FunctionHeader_coerce_kwarg. apply coerce_kwarg_is_source. Qed.

(* ------------------------------------------------------------------ get_closest_match: the left-to-right scan *)
Fixpoint hscan (closest : hdr) (rest : list hdr) : hdr :=
  match rest with
  | [] => closest
  | h :: r => if types_below (erase_hdr h) (erase_hdr closest) then hscan h r else hscan closest r
  end.

Lemma foldM_scan (f : hdr -> hdr -> dres (V W) hdr) :
  (forall c h, f c h = DOk (if types_below (erase_hdr h) (erase_hdr c) then h else c)) ->
  forall rest c, foldM f rest c = DOk (hscan c rest).
Proof.
  intros Hf. induction rest as [|h r IH]; intro c; cbn [foldM hscan]; [reflexivity|].
  rewrite Hf. cbn [dbind]. destruct (types_below _ _); apply IH.
Qed.

Theorem closest_is_source hs :
  match hs with [] => DRaise (EExn IndexError) | h :: r => DOk (hscan h r) end = g_get_closest_match W hs.
Proof.
  unfold g_get_closest_match. destruct hs as [|h r]; [reflexivity|].
  cbn [py_index nth_error dbind skipn]. cbv zeta. rewrite ?dbind_DOk_r. symmetry.
  apply foldM_scan. intros c x. unfold erase_hdr.
  rewrite <- (types_below_is_source (h_f x) (h_f c)). cbn [dbind].
  destruct (types_below _ _); reflexivity.
Qed.

(* the model scans (index, signature) pairs of the regenerated registry; same choice *)
Lemma hscan_scan name : forall (r : list isig) (c : isig),
  hscan (header_of name (snd c)) (map (fun s => header_of name (snd s)) r) = header_of name (snd (scan c r)).
Proof.
  induction r as [|h r IH]; intro c; cbn [map hscan scan]; [reflexivity|].
  rewrite !erase_header_of. destruct (types_below (snd h) (snd c)); apply IH.
Qed.

(* ------------------------------------------------------------------ lookup_function: FUNCTIONS[name] filtered by sig_matches *)
Lemma filterM_pure {A} (f : A -> dres (V W) bool) (g : A -> bool) :
  (forall x, f x = DOk (g x)) -> forall l, filterM f l = DOk (filter g l).
Proof.
  intros H. induction l as [|x l IH]; cbn [filterM filter]; [reflexivity|].
  rewrite H, IH. cbn [dbind]. destruct (g x); reflexivity.
Qed.

Definition m_lookup (F : fdict) (name : string) (ks : list nat) : list hdr :=
  filter (fun h => sig_matches (erase_hdr h) ks) (py_ddict_get F name).

Theorem lookup_is_source F name args :
  DOk (m_lookup F name (map (kind_of W) args)) = g_lookup_function W F name args.
Proof.
  unfold g_lookup_function, m_lookup. symmetry. apply filterM_pure.
  intro h. symmetry. apply header_sig_matches_is_source.
Qed.

(* ------------------------------------------------------------------ dispatch
   m_resolve: everything before a body runs (what Model/Dispatch.v dispatch_decision decides), with
   the payload of the four errors; m_run: coercion of the arguments, the call, simplify_type. *)
Fixpoint m_check_kws (h : hdr) (kws : list (string * V W)) : dres (V W) unit :=
  match kws with
  | [] => DOk tt
  | (k, v) :: r =>
      match assoc k (ps_kws (h_sig h)) with
      | None => DRaise (EUnknownKeyword h k)
      | Some t => if isinst (kind_of W v) (ix t) then m_check_kws h r else DRaise (EBadTypeKeyword h k v t)
      end
  end.

Definition m_resolve (F : fdict) (name : string) (args : list (V W)) (kws : list (string * V W)) : dres (V W) hdr :=
  match assoc name F with
  | None => DRaise (EUnknownFunction name)
  | Some hs =>
      match filter (fun h => sig_matches (erase_hdr h) (map (kind_of W) args)) hs with
      | [] => DRaise (ENoMatch name (map (ext_type_name W) args) (map (fun h => sig_str W (h_sig h)) hs))
      | c :: r => let h := hscan c r in dbind (m_check_kws h kws) (fun _ => DOk h)
      end
  end.

Definition m_run (h : hdr) (args : list (V W)) (kws : list (string * V W)) : dres (V W) (V W) :=
  dbind (m_coerce_args (h_sig h) args) (fun a =>
  dbind (mapM (fun kv => dbind (m_coerce_kwarg (h_sig h) (fst kv) (snd kv)) (fun c => DOk (fst kv, c))) kws) (fun kw =>
  dbind (call W (h_f h) a kw) (fun r => simplify_type W r))).

Definition m_dispatch (F : fdict) (name : string) (args : list (V W)) (kws : list (string * V W)) : dres (V W) (V W) :=
  dbind (m_resolve F name args kws) (fun h => m_run h args kws).

Lemma foldM_check_kws h (f : unit -> string * V W -> dres (V W) unit) :
  (forall u k v, f u (k, v) = match assoc k (ps_kws (h_sig h)) with
                              | None => DRaise (EUnknownKeyword h k)
                              | Some t => if isinst (kind_of W v) (ix t) then DOk tt else DRaise (EBadTypeKeyword h k v t)
                              end) ->
  forall kws u, foldM f kws u = m_check_kws h kws.
Proof.
  intro Hf. induction kws as [|[k v] r IH]; intro u; cbn [foldM m_check_kws]; [destruct u; reflexivity|].
  rewrite Hf. destruct (assoc k (ps_kws (h_sig h))) as [t|]; [|reflexivity].
  destruct (isinst (kind_of W v) (ix t)); cbn [dbind]; [apply IH|reflexivity].
Qed.

Lemma mapM_ext {A B} (f g : A -> dres (V W) B) : (forall x, f x = g x) -> forall l, mapM f l = mapM g l.
Proof. intro H. induction l as [|x l IH]; cbn [mapM]; [reflexivity|]. rewrite H, IH. reflexivity. Qed.

Theorem dispatch_is_source F name args kws :
  m_dispatch F name args kws = g_dispatch W F name args (Some kws).
Proof.
  unfold g_dispatch, m_dispatch, m_resolve. cbv zeta.
  unfold py_dict_mem. destruct (assoc name F) as [hs|] eqn:A; cbn [negb dbind]; [|reflexivity].
  rewrite <- lookup_is_source. cbn [dbind]. unfold m_lookup, py_ddict_get. rewrite A.
  destruct (filter _ hs) as [|c r] eqn:Fl; cbn [py_nonempty dbind].
  - rewrite map_map. reflexivity.
  - rewrite <- (closest_is_source (c :: r)). cbn [dbind].
    rewrite foldM_check_kws with (h := hscan c r).
    2:{ intros u k v. cbv zeta. destruct (assoc k _) as [t|]; [|reflexivity].
        rewrite <- is_type_is_source. cbn [dbind]. destruct (isinst _ _); reflexivity. }
    destruct (m_check_kws (hscan c r) kws) as [[]|e]; cbn [dbind]; [|reflexivity].
    unfold m_run. rewrite <- header_coerce_args_is_source.
    destruct (m_coerce_args _ args) as [a|e]; cbn [dbind]; [|reflexivity].
    match goal with |- _ = dbind (mapM ?f _) _ =>
      rewrite (mapM_ext f (fun kv => dbind (m_coerce_kwarg (h_sig (hscan c r)) (fst kv) (snd kv)) (fun c0 => DOk (fst kv, c0))))
    end; [reflexivity|].
    intros [k v]. cbn [fst snd]. rewrite <- header_coerce_kwarg_is_source. reflexivity.
Qed.

(* kw_args omitted (None) is the empty dictionary *)
Lemma dispatch_no_kwargs F name args : g_dispatch W F name args None = g_dispatch W F name args (Some []).
Proof. reflexivity. Qed.

(* ---- and m_resolve on the regenerated registry IS Model/Dispatch.v's dispatch_decision *)
Definition erase_err (e : derr (V W)) : exn :=
  match e with
  | EUnknownFunction _ => UnknownFunctionError
  | ENoMatch _ _ _ => NoMatchingFunctionSignatureError
  | EUnknownKeyword _ _ => UnknownKeywordError
  | EBadTypeKeyword _ _ _ _ => BadTypeKeywordError
  | EExn x => x
  | EPy _ => Unmodelled
  end.

Lemma assoc_live name : assoc name live_FUNCTIONS = option_map (map (header_of name)) (assoc name registry).
Proof.
  unfold live_FUNCTIONS. induction registry as [|[n l] reg IH]; cbn [map assoc fst snd]; [reflexivity|].
  destruct (String.eqb_spec name n) as [->|N]; [reflexivity|exact IH].
Qed.

Lemma lookup_live name ks : forall (l : list gsig) i,
  filter (fun h => sig_matches (erase_hdr h) ks) (map (header_of name) l)
  = map (fun s => header_of name (snd s)) (lookup (index_from i l) ks).
Proof.
  unfold lookup. induction l as [|s l IH]; intro i; cbn [map index_from filter snd]; [reflexivity|].
  rewrite erase_header_of. destruct (sig_matches s ks); cbn [map snd]; rewrite (IH (S i)); reflexivity.
Qed.

Lemma assoc_kws k (l : list (string * nat)) :
  assoc k (map (fun kv => (fst kv, tyobj_of (snd kv))) l) = option_map tyobj_of (assoc k l).
Proof.
  induction l as [|[k' t] l IH]; cbn [map assoc fst snd]; [reflexivity|].
  destruct (String.eqb k k'); [reflexivity|exact IH].
Qed.

Lemma check_kws_live name s kws :
  match m_check_kws (header_of name s) kws with
  | DOk _ => check_kws s (map (fun kv => (fst kv, kind_of W (snd kv))) kws) = None
  | DRaise e => check_kws s (map (fun kv => (fst kv, kind_of W (snd kv))) kws) = Some (erase_err e)
  end.
Proof.
  induction kws as [|[k v] r IH]; cbn [m_check_kws map check_kws fst snd]; [reflexivity|].
  cbn [header_of h_sig psig_of ps_kws]. rewrite assoc_kws.
  destruct (assoc k (g_kws s)) as [t|]; cbn [option_map]; [|reflexivity].
  rewrite ix_tyobj_of. destruct (isinst (kind_of W v) t); [exact IH|reflexivity].
Qed.

Theorem resolve_is_model name args kws :
  let ks := map (kind_of W) args in
  let kks := map (fun kv => (fst kv, kind_of W (snd kv))) kws in
  match m_resolve live_FUNCTIONS name args kws with
  | DOk h => exists sigs i s, sigs_of name = Some sigs /\ closest_match (lookup sigs ks) = Some (i, s)
                              /\ h = header_of name s /\ dispatch_decision name ks kks = Run (g_impl s) i
  | DRaise e => dispatch_decision name ks kks = Reject (erase_err e)
  end.
Proof.
  cbv zeta. unfold m_resolve, dispatch_decision, sigs_of. rewrite assoc_live.
  destruct (assoc name registry) as [l|]; cbn [option_map]; [|reflexivity].
  rewrite (lookup_live name _ l 0).
  destruct (lookup (index_from 0 l) (map (kind_of W) args)) as [|c r] eqn:Lk; cbn [map closest_match]; [reflexivity|].
  cbv zeta. rewrite hscan_scan.
  destruct (scan c r) as [i s] eqn:Sc. cbn [snd].
  pose proof (check_kws_live name s kws) as K.
  destruct (m_check_kws (header_of name s) kws) as [u|e]; cbn [dbind]; rewrite K.
  - exists (index_from 0 l), i, s. repeat split; try reflexivity. rewrite Lk. cbn [closest_match]. rewrite Sc. reflexivity.
  - reflexivity.
Qed.

Lemma check_kws_err h kws e : m_check_kws h kws = DRaise e ->
  (exists k, e = EUnknownKeyword h k) \/ (exists k v t, e = EBadTypeKeyword h k v t).
Proof.
  induction kws as [|[k v] r IH]; cbn [m_check_kws]; [discriminate|].
  destruct (assoc k (ps_kws (h_sig h))) as [t|].
  - destruct (isinst (kind_of W v) (ix t)); [exact IH|].
    intro E; injection E as <-. right. exists k, v, t. reflexivity.
  - intro E; injection E as <-. left. exists k. reflexivity.
Qed.

(* the error payloads: the unknown name; the argument type names and str() of EVERY signature
   registered under the name, in registration order; the chosen header and the offending keyword *)
Theorem no_match_names_all_candidates F name args kws nm att sigs :
  m_resolve F name args kws = DRaise (ENoMatch nm att sigs) ->
  nm = name /\ att = map (ext_type_name W) args /\ sigs = map (fun h => sig_str W (h_sig h)) (py_ddict_get F name)
  /\ m_lookup F name (map (kind_of W) args) = [].
Proof.
  unfold m_resolve, m_lookup, py_ddict_get. destruct (assoc name F) as [hs|]; [|discriminate].
  destruct (filter _ hs) as [|c r]; cbv zeta.
  - intro E; injection E as <- <- <-. auto.
  - destruct (m_check_kws _ kws) as [u|e] eqn:K; cbn [dbind]; [discriminate|].
    intro E; injection E as ->. apply check_kws_err in K. destruct K as [[k K]|[k [v [t K]]]]; discriminate.
Qed.

(* ------------------------------------------------------------------ registration
   register_function appends ONE header, built from its arguments, at the end of the entry of its
   name (a new entry at the end of the dictionary for a new name). *)
Definition m_header (name f : string) (arg_types : list tyobj) (kws : option (list (string * tyobj))) (vararg : option tyobj) : hdr :=
  {| h_name := name; h_f := f;
     h_sig := {| ps_args := arg_types; ps_vararg := vararg; ps_kws := match kws with Some l => l | None => [] end |} |}.

Theorem register_function_is_source F f name arg_types doc kws vararg :
  py_ddict_append F name (m_header name f arg_types kws vararg)
  = g_register_function W F f name arg_types doc kws vararg.
Proof. unfold g_register_function, g_FunctionHeader, g_FunctionSignature, py_or_dict, m_header. reflexivity. Qed.

Theorem register_binary_op_is_source F name op doc :
  py_ddict_append F name (m_header name op [py_global_type "Number"; py_global_type "Number"] None None)
  = g_register_binary_op W F name op doc.
Proof. unfold g_register_binary_op. cbv zeta. rewrite <- register_function_is_source. reflexivity. Qed.

(* register_commutative_op: f for (type1, type2), THEN the reversed-argument wrapper for (type2, type1);
   the wrapper called with (y, x) calls f with (x, y) *)
Definition rev_key (f : string) : string :=
  py_closure_key "ka.functions.register_commutative_op.<locals>.reverse_f" [("f", f)].

Theorem register_commutative_op_is_source F f name t1 t2 :
  py_ddict_append (py_ddict_append F name (m_header name f [t1; t2] None None))
                  name (m_header name (rev_key f) [t2; t1] None None)
  = g_register_commutative_op W F f name t1 t2.
Proof. unfold g_register_commutative_op. cbv zeta. rewrite <- !register_function_is_source. reflexivity. Qed.

Theorem reverse_f_is_source f y x : call W f [x; y] [] = g_register_commutative_op_reverse_f W f y x.
Proof. unfold g_register_commutative_op_reverse_f. rewrite ?dbind_DOk_r. reflexivity. Qed.

End Facts.

(* what appending does to later lookups *)
Lemma ddict_append_same F name h : py_ddict_get (py_ddict_append F name h) name = py_ddict_get F name ++ [h].
Proof.
  unfold py_ddict_get. induction F as [|[k l] F IH]; cbn [py_ddict_append assoc].
  - rewrite String.eqb_refl. reflexivity.
  - destruct (String.eqb name k) eqn:E; cbn [assoc]; rewrite E; [reflexivity|exact IH].
Qed.

Lemma ddict_append_other F name h name' : name' <> name ->
  py_ddict_get (py_ddict_append F name h) name' = py_ddict_get F name'.
Proof.
  intro N. unfold py_ddict_get. induction F as [|[k l] F IH]; cbn [py_ddict_append assoc].
  - destruct (String.eqb_spec name' name); [contradiction|reflexivity].
  - destruct (String.eqb_spec name k) as [->|N2]; cbn [assoc].
    + destruct (String.eqb_spec name' k); [contradiction|reflexivity].
    + destruct (String.eqb name' k); [reflexivity|exact IH].
Qed.

Lemma ddict_append_known F name h : py_dict_mem (py_ddict_append F name h) name = true.
Proof.
  unfold py_dict_mem. induction F as [|[k l] F IH]; cbn [py_ddict_append assoc].
  - rewrite String.eqb_refl. reflexivity.
  - destruct (String.eqb name k) eqn:E; cbn [assoc]; rewrite E; [reflexivity|exact IH].
Qed.

Theorem register_function_appends W F f name arg_types doc kws vararg :
  py_ddict_get (g_register_function W F f name arg_types doc kws vararg) name
  = py_ddict_get F name ++ [m_header name f arg_types kws vararg].
Proof. rewrite <- register_function_is_source. apply ddict_append_same. Qed.

Theorem register_commutative_op_appends W F f name t1 t2 :
  py_ddict_get (g_register_commutative_op W F f name t1 t2) name
  = py_ddict_get F name ++ [m_header name f [t1; t2] None None; m_header name (rev_key f) [t2; t1] None None].
Proof.
  rewrite <- register_commutative_op_is_source, !ddict_append_same, <- app_assoc. reflexivity.
Qed.

(* ---- the same on the LIVE registry: every entry whose callable is a reverse_f closure directly
   follows the entry of the function it wraps, with that function's two types reversed, no vararg
   and no keywords (what register_commutative_op_appends says the registrar produces). *)
Definition rev_prefix : string := "ka.functions.register_commutative_op.<locals>.reverse_f[".
Definition nat_list_eqb (a b : list nat) : bool :=
  Nat.eqb (List.length a) (List.length b) && forallb (fun p => Nat.eqb (fst p) (snd p)) (combine a b).
Definition plain (s : gsig) : bool :=
  match g_vararg s, g_kws s with None, [] => true | _, _ => false end.
Fixpoint comm_ok (prev : option gsig) (l : list gsig) : bool :=
  match l with
  | [] => true
  | s :: r =>
      (if String.prefix rev_prefix (g_impl s)
       then match prev with
            | Some p => String.eqb (g_impl s) (rev_key (g_impl p)) && nat_list_eqb (g_args s) (rev (g_args p))
                        && Nat.eqb (List.length (g_args p)) 2 && plain s && plain p
            | None => false
            end
       else true) && comm_ok (Some s) r
  end.
Definition commutative_registrations_ok : bool := forallb (fun e => comm_ok None (snd e)) registry.
Definition commutative_registrations_exist : bool :=
  existsb (fun e => existsb (fun s => String.prefix rev_prefix (g_impl s)) (snd e)) registry.

Lemma commutative_registrations_ok_true : commutative_registrations_ok = true.
Proof. vm_compute. reflexivity. Qed.
Lemma commutative_registrations_exist_true : commutative_registrations_exist = true.
Proof. vm_compute. reflexivity. Qed.

Print Assumptions is_type_is_source.
Print Assumptions type_below_is_source.
Print Assumptions types_below_is_source.
Print Assumptions FunctionSignature_is_source.
Print Assumptions FunctionHeader_is_source.
Print Assumptions matches_is_source.
Print Assumptions header_sig_matches_is_source.
Print Assumptions coerce_args_is_source.
Print Assumptions coerce_kwarg_is_source.
Print Assumptions header_coerce_args_is_source.
Print Assumptions header_coerce_kwarg_is_source.
Print Assumptions closest_is_source.
Print Assumptions hscan_scan.
Print Assumptions lookup_is_source.
Print Assumptions dispatch_is_source.
Print Assumptions dispatch_no_kwargs.
Print Assumptions resolve_is_model.
Print Assumptions no_match_names_all_candidates.
Print Assumptions register_function_is_source.
Print Assumptions register_binary_op_is_source.
Print Assumptions register_commutative_op_is_source.
Print Assumptions reverse_f_is_source.
Print Assumptions register_function_appends.
Print Assumptions register_commutative_op_appends.
Print Assumptions ddict_append_other.
Print Assumptions ddict_append_known.
Print Assumptions commutative_registrations_ok_true.
Print Assumptions commutative_registrations_exist_true.
