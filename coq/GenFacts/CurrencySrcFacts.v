(* CurrencySrcFacts.v — the currency part of Model/Currency.v IS the source's.

   Gen/GenCurrencySrc.v is regenerated on every run from the Python AST of src/ka/currency.py (parse_currency_data,
   DEFAULT_CURRENCY_DATA) and src/ka/units.py (has_currency, register_unit, the module-level `if BASE_CURRENCY is not
   None:` statement with the currency registration loop, SPECIAL_NAMES, SPECIAL_CURRENCY_SYMBOLS) by
   harness/trans_config.py; the trusted construct mapping is in the header of the generated file.

   The registration code works on the global dictionaries NAME_TO_UNIT, SYMBOL_TO_UNIT and the list UNITS: a
   translated function takes that state ([uworld]: the key lists and the units appended) and returns
   (result, state).  The model's [regstate] is the same state with, per unit, the table row it came from
   ([erase] forgets it).  [plural_ok] is an explicit hypothesis: a genuine difference between model and source.

   A change of meaning in a translated function breaks its lemma (or leaves the generated file without the
   definition: fail closed). *)
From Coq Require Import List String ZArith QArith Ascii Bool Lia.
From Ka Require Import Model.Config Proofs.CurrencyProofs Gen.GenCurrencySrc.
Import ListNotations.
Local Open Scope string_scope.

(* ------------------------------------------------------------------------- currency.py: the table text *)
(* parse_currency_data returns a list, None, or raises ValueError: the model's three outcomes *)
Definition of_parsed (p : parsed) : pres (option (list cur)) :=
  match p with PTable t => POk (Some t) | PNone => POk None | PValueError => PRaise "ValueError" end.

Lemma parse_currency_data_is_source : forall pf s,
  g_parse_currency_data pf s = of_parsed (parse_currency_data pf s).
Proof.
  intros pf s. unfold g_parse_currency_data, parse_currency_data. cbv zeta.
  change (ascii_of_nat 10) with ch_nl. generalize (split_on ch_nl s) as ls. intro ls.
  match goal with |- context [pfor ?b] => set (body := b) end.
  assert (G : forall ls acc,
    pbind (pfor body (map (fun line => split_on "," line) (filter (fun line => str_truthy (strip line)) ls)) acc)
      (fun o => match o with FReturn b => POk b | FNext result | FBreak result => POk (Some result) end)
    = match parse_rows pf ls with
      | PTable t => POk (Some (acc ++ t)%list) | PNone => POk None | PValueError => PRaise "ValueError" end).
  { clear ls. induction ls as [|l ls IH]; intro acc.
    - cbn. rewrite app_nil_r. reflexivity.
    - cbn [filter parse_rows]. unfold is_blank. destruct (strip l) eqn:SL; cbn [str_truthy]; [apply IH|].
      cbn [map pfor]. change (split_on "," l) with (split_on ch_comma l).
      destruct (split_on ch_comma l) as [|f0 [|f1 [|f2 r]]]; try reflexivity.
      unfold body at 1. cbn [List.length].
      destruct (Z.ltb_spec (Z.of_nat (S (S (S (Datatypes.length r))))) 3); [lia|].
      cbn [list_get nth_error pbind]. unfold py_float. destruct (pf f2) as [q|]; [|reflexivity].
      cbn [pbind]. unfold Qgtb. change (0 # 1) with 0%Q. destruct (Qle_bool q 0); cbn [negb]; [reflexivity|].
      rewrite IH. destruct (parse_rows pf ls); try reflexivity. rewrite <- app_assoc. reflexivity. }
  specialize (G ls []). cbn [app] in G. rewrite G. destruct (parse_rows pf ls); reflexivity.
Qed.

(* the tables of the source text are the regenerated (live) tables of Gen/GenCurrency.v; the default base is eur *)
Lemma special_tables_are_source :
  g_SPECIAL_NAMES = special_names /\ g_SPECIAL_CURRENCY_SYMBOLS = special_currency_symbols
  /\ g_DEFAULT_BASE_CURRENCY = default_base_currency /\ default_base_currency = "eur".
Proof. repeat split; reflexivity. Qed.

(* the built-in table: the translated parser, run on the source's DEFAULT_CURRENCY_DATA with Python's float() of its
   rate fields, gives the live table *)
Lemma builtin_table_is_source :
  g_parse_currency_data (float_table g_default_floats) g_DEFAULT_CURRENCY_DATA = POk (Some currency_data).
Proof. vm_compute. reflexivity. Qed.

(* ------------------------------------------------------------------------- units.py: base currency *)
Lemma has_currency_is_source : forall g s t, gval_cval g = VStr s ->
  g_has_currency g t = POk (has_currency s t).
Proof.
  intros g s t H. unfold g_has_currency, has_currency, gval_eq_str. rewrite H. reflexivity.
Qed.

(* the choice of the base currency: configured if the table has it, else the default, else none *)
Lemma select_base_is_source : forall g s t, gval_cval g = VStr s ->
  pbind (g_select_base g_DEFAULT_BASE_CURRENCY g t) (fun b => POk (option_map gval_cval b))
  = POk (option_map VStr (select_base s t)).
Proof.
  intros g s t H. unfold g_select_base, select_base. rewrite (has_currency_is_source g s t H). cbn [pbind].
  destruct (has_currency s t); cbn [pbind option_map]; [rewrite H; reflexivity|].
  rewrite (has_currency_is_source (GStored (VStr g_DEFAULT_BASE_CURRENCY)) g_DEFAULT_BASE_CURRENCY t eq_refl).
  cbn [pbind]. change g_DEFAULT_BASE_CURRENCY with default_base_currency.
  destruct (has_currency default_base_currency t); reflexivity.
Qed.

(* ------------------------------------------------------------------------- units.py: registration *)
Definition erase_unit (u : cunit) : gunit := mk_gunit (cu_sym u) (cu_name u) (cu_plural u) (cu_mult u) 0.

Definition erase (st : regstate) : uworld := mkU (rs_names st) (rs_syms st) (map erase_unit (rs_cash st)).

(* the model always registers the plural; register_unit does not when it equals Unit.NO_PLURAL *)
Definition plural_ok (name : string) : Prop := String.eqb (name ++ "s") g_Unit_NO_PLURAL = false.

Lemma raise_sbind {S A B} (r : sres S A) (k : A -> S -> sres S B) e :
  fst r = PRaise e -> fst (sbind r k) = PRaise e.
Proof. destruct r as [[a|e'] s]; cbn; [discriminate|intro H; inversion H; reflexivity]. Qed.

(* register_unit: the three assertions in the order of the source, the keys added, the unit appended *)
Lemma register_unit_is_source : forall st sym name mult row, plural_ok name ->
  match register_unit st sym name mult row with
  | POk st' => g_register_unit sym name None mult 0 (erase st)
               = (POk (mk_gunit sym name (name ++ "s") mult 0), erase st')
  | PRaise e => fst (g_register_unit sym name None mult 0 (erase st)) = PRaise e
  end.
Proof.
  intros st sym name mult row HP. unfold register_unit, g_register_unit. cbv zeta.
  cbn [erase u_NAME_TO_UNIT u_SYMBOL_TO_UNIT u_UNITS set_UNITS set_NAME_TO_UNIT set_SYMBOL_TO_UNIT].
  destruct (mem name (rs_names st)); cbn [negb]; [reflexivity|].
  destruct (mem sym (rs_syms st)); cbn [negb]; [reflexivity|].
  unfold plural_ok in HP. rewrite HP. cbn [negb].
  destruct (mem (name ++ "s") (name :: rs_names st)); cbn [negb]; [reflexivity|].
  unfold erase. cbn [rs_names rs_syms rs_cash]. rewrite map_app. reflexivity.
Qed.

Lemma py_next_filter {A} (f : A -> bool) l :
  py_next (filter f l) = match find f l with Some x => POk x | None => PRaise "StopIteration" end.
Proof. induction l as [|x l IH]; [reflexivity|]. cbn. destruct (f x); [reflexivity|exact IH]. Qed.

Lemma append_s_neq (name : string) : String.eqb (name ++ "s") name = false.
Proof.
  apply String.eqb_neq. induction name as [|c r IH]; cbn; [discriminate|].
  intro H. inversion H. contradiction.
Qed.

(* the nested function taken(sym, name), read on the current dictionaries *)
Lemma taken_is_source st sym name :
  mem sym (u_SYMBOL_TO_UNIT (erase st)) || mem name (u_NAME_TO_UNIT (erase st))
  || mem (name ++ "s") (u_NAME_TO_UNIT (erase st)) = taken st sym name.
Proof.
  unfold taken. cbn [erase u_SYMBOL_TO_UNIT u_NAME_TO_UNIT].
  replace (mem (name ++ "s") (name :: rs_names st)) with (mem (name ++ "s") (rs_names st)); [reflexivity|].
  unfold mem. cbn [existsb]. rewrite append_s_neq. reflexivity.
Qed.

Lemma assoc_in {A} k (l : list (string * A)) v : assoc k l = Some v -> exists k', In (k', v) l.
Proof.
  induction l as [|[k' v'] l IH]; cbn; [discriminate|].
  destruct (k =? k'); intro H; [inversion H; subst; eexists; left; reflexivity|].
  destruct (IH H) as [k'' Hk]. eexists. right. exact Hk.
Qed.

Lemma special_plural_ok :
  (forall k n, assoc k special_names = Some n -> plural_ok n)
  /\ (forall k n, assoc k special_currency_symbols = Some n -> plural_ok n).
Proof.
  assert (G : forall tbl : list (string * string),
            forallb (fun p => negb (String.eqb (snd p ++ "s") g_Unit_NO_PLURAL)) tbl = true ->
            forall k n, assoc k tbl = Some n -> plural_ok n).
  { intros tbl F k n H. destruct (assoc_in _ _ _ H) as [k' Hk].
    rewrite forallb_forall in F. specialize (F _ Hk). cbn [snd] in F. unfold plural_ok.
    destruct (String.eqb (n ++ "s") g_Unit_NO_PLURAL); [discriminate|reflexivity]. }
  split; apply G; vm_compute; reflexivity.
Qed.

(* a table row none of whose candidate names would make the plural Unit.NO_PLURAL *)
Definition row_ok (nn : namenorm_t) (c : cur) : Prop := plural_ok (nn (c_name c)) /\ plural_ok (c_sym c).

(* the model's register_currencies from an arbitrary registry *)
Definition model_register (nn : namenorm_t) (t : list cur) (base : string) (st : regstate) : pres regstate :=
  match find (fun c => String.eqb (c_sym c) base) t with
  | None => PRaise "StopIteration"
  | Some b => register_loop nn (c_rate b) st t
  end.

Definition agrees {A} (r : sres uworld A) (a : A) (m : pres regstate) : Prop :=
  match m with POk st' => r = (POk a, erase st') | PRaise e => fst r = PRaise e end.

(* register one unit as the model does: rewrite with register_unit_is_source, or end on the same exception *)
Ltac reg_unit st sym name mul c HP :=
  let RU := fresh "RU" in
  pose proof (register_unit_is_source st sym name mul c HP) as RU;
  destruct (register_unit st sym name mul c) as [?st|?e];
  [rewrite RU; clear RU; cbn [sbind pbind]|apply raise_sbind; exact RU].

(* one choice of symbol and name in the loop body: special name, taken?, register, special symbol, taken?, register *)
Ltac reg_case Hn Hs :=
  match goal with |- context [assoc ?sy special_names] =>
    let A := fresh "A" in
    destruct (assoc sy special_names) as [?n|] eqn:A;
    match goal with |- context [g_register_unit sy ?nm None ?mul 0 (erase ?st)] =>
      let HP := fresh "HP" in
      assert (HP : plural_ok nm) by (first [exact Hn | exact Hs | exact (proj1 special_plural_ok _ _ A)]);
      change (mem sy (rs_syms st)) with (mem sy (u_SYMBOL_TO_UNIT (erase st)));
      change (mem nm (rs_names st)) with (mem nm (u_NAME_TO_UNIT (erase st)));
      change (mem (nm ++ "s") (rs_names st)) with (mem (nm ++ "s") (u_NAME_TO_UNIT (erase st)));
      rewrite (taken_is_source st sy nm); cbn [agrees];
      destruct (taken st sy nm); [reflexivity|];
      cbn [pbind];
      match goal with |- context [register_unit st sy nm mul ?c] =>
        reg_unit st sy nm mul c HP;
        let A2 := fresh "A2" in
        destruct (assoc sy special_currency_symbols) as [?ss|] eqn:A2; [|reflexivity];
        match goal with |- context [g_register_unit ?s2 ?s2 None mul 0 (erase ?st1)] =>
          rewrite (taken_is_source st1 s2 s2); destruct (taken st1 s2 s2); [reflexivity|];
          reg_unit st1 s2 s2 mul c (proj2 special_plural_ok _ _ A2); reflexivity
        end
      end
    end
  end.

(* the whole `if BASE_CURRENCY is not None:` statement: next(..) for the base row, then the loop — the model's
   register_currencies, from any registry [st]; on an exception both end on the same class *)
Lemma register_block_is_source : forall nn t b s st,
  gval_cval b = VStr s -> (forall c, In c t -> row_ok nn c) ->
  agrees (g_units_register_block nn (Some b) t (erase st)) tt (model_register nn t s st).
Proof.
  intros nn t b s st Hb Hrows. unfold g_units_register_block, model_register.
  rewrite py_next_filter. unfold gval_eq_str. rewrite Hb.
  destruct (find (fun c => c_sym c =? s) t) as [bb|]; cbn [slift sbind]; [|reflexivity].
  cbv zeta.
  match goal with |- context [sfor ?f] => set (body := f) end.
  assert (B : forall c st, row_ok nn c ->
            agrees (body c tt (erase st)) (FNext tt) (register_currency nn (c_rate bb) st c)).
  { clear st Hrows. intros c st [Hn Hs]. unfold body, register_currency; clear body.
    unfold pyfdiv. destruct (Qeq_bool (c_rate c) 0); [reflexivity|]. cbv zeta.
    change (u_NAME_TO_UNIT (erase st)) with (rs_names st). change (u_SYMBOL_TO_UNIT (erase st)) with (rs_syms st).
    change g_SPECIAL_NAMES with special_names. change g_SPECIAL_CURRENCY_SYMBOLS with special_currency_symbols.
    unfold has_key, dict_get.
    set (mul := (c_rate bb / c_rate c)%Q).
    destruct (mem (nn (c_name c)) (rs_names st)); destruct (mem (c_sym c) (rs_syms st)); cbn [andb];
      [reflexivity|reg_case Hn Hs|reg_case Hn Hs|reg_case Hn Hs]. }
  assert (L : forall l st, (forall c, In c l -> row_ok nn c) ->
            agrees (sfor body l tt (erase st)) (FNext tt) (register_loop nn (c_rate bb) st l)).
  { induction l as [|c l IH]; intros st0 Hl; [reflexivity|].
    cbn [sfor register_loop]. specialize (B c st0 (Hl c (or_introl eq_refl))).
    destruct (register_currency nn (c_rate bb) st0 c) as [st1|e]; cbn [agrees pbind] in *.
    - rewrite B. apply IH. intros c' Hc'. apply Hl. right. exact Hc'.
    - destruct (body c tt (erase st0)) as [[[?|?|?]|e'] s']; cbn [fst] in B; try discriminate; exact B. }
  specialize (L t st Hrows). unfold agrees in *.
  destruct (register_loop nn (c_rate bb) st t) as [st'|e].
  - rewrite L. reflexivity.
  - apply raise_sbind. exact L.
Qed.

(* the two outcomes of registry_for: no cash dimension, or the loop from the units registered before *)
Lemma register_block_none : forall nn t w, g_units_register_block nn None t w = (POk tt, w).
Proof. reflexivity. Qed.

Lemma register_currencies_is_model_register : forall nn pn ps t base,
  register_currencies nn pn ps t base = model_register nn t base {| rs_names := pn; rs_syms := ps; rs_cash := [] |}.
Proof. reflexivity. Qed.

(* ... and the registration that follows is the model's [registry_for] *)
Lemma registry_for_is_source : forall nn t conf b,
  option_map gval_cval b = option_map VStr (select_base conf t) -> (forall c, In c t -> row_ok nn c) ->
  let r := g_units_register_block nn b t (erase {| rs_names := pre_names; rs_syms := pre_syms; rs_cash := [] |}) in
  match registry_for nn t conf with
  | POk None => b = None /\ fst r = POk tt
  | POk (Some st') => r = (POk tt, erase st')
  | PRaise e => fst r = PRaise e
  end.
Proof.
  intros nn t conf b Hb Hrows. unfold registry_for.
  destruct (select_base conf t) as [s|]; destruct b as [g|]; try discriminate; cbn [option_map] in Hb.
  - inversion Hb as [Hg]. rewrite register_currencies_is_model_register.
    pose proof (register_block_is_source nn t g s {| rs_names := pre_names; rs_syms := pre_syms; rs_cash := [] |} Hg Hrows) as A.
    unfold agrees in A. destruct (model_register nn t s _) as [st'|e]; cbn [pbind]; exact A.
  - split; reflexivity.
Qed.

Print Assumptions parse_currency_data_is_source.
Print Assumptions special_tables_are_source.
Print Assumptions builtin_table_is_source.
Print Assumptions has_currency_is_source.
Print Assumptions select_base_is_source.
Print Assumptions raise_sbind.
Print Assumptions register_unit_is_source.
Print Assumptions py_next_filter.
Print Assumptions append_s_neq.
Print Assumptions taken_is_source.
Print Assumptions assoc_in.
Print Assumptions special_plural_ok.
Print Assumptions register_block_is_source.
Print Assumptions register_block_none.
Print Assumptions register_currencies_is_model_register.
Print Assumptions registry_for_is_source.
