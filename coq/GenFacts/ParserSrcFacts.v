(* ParserSrcFacts.v — the hand-written parser model (Model/Parser.v, Model/Syntax.v) is EQUAL, function by function,
   to the Gallina definitions regenerated on every run from the Python AST of src/ka/parse.py
   (harness/trans_parser.py -> Gen/GenParserSrc.v).  The construct mapping that translation trusts is listed in the
   header of the generated file; everything else (which tag each test looks at, the operator list of each level,
   which function parses the operands of which level, the order of the alternatives, the bound of the comparison
   loop, the operator flipping of make_comparison_node, where each error is raised and at which token) is checked
   here: a change of the source that alters a translated function breaks one of these proofs.

   Naming: <python function>_is_source.  Where the model has no separate definition for a Python function (it
   inlined parse_number, parse_function, parse_assignment, ...) the left-hand side is the model expression at the
   place of the call.  `pe` (model) and `pe'` (generated) are the parsers used for nested expressions; every level
   is proved for any two pointwise-equal ones, and parse_expression_fix_is_source closes the knot. *)
From Coq Require Import List String ZArith Bool Arith Lia.
From Ka Require Import Model.Syntax Model.Parser Gen.GenParserSrc.
Import ListNotations.
Local Open Scope string_scope.
Local Open Scope list_scope.
Local Open Scope nat_scope.

Definition tagb (tag : string) (t : tok) : bool := String.eqb tag (tag_of t).
Definition head_in (tags : list string) (ts : list tok) : bool :=
  match ts with t :: _ => existsb (fun tag => tagb tag t) tags | [] => false end.
Fixpoint prefix_is (tags : list string) (ts : list tok) : bool :=
  match tags with
  | [] => true
  | tag :: r => match ts with t :: ts' => tagb tag t && prefix_is r ts' | [] => false end
  end.

Lemma check_type_src i tag ts :
  g_check_type i tag ts = POk (match nth_error ts i with Some t => tagb tag t | None => false end, ts).
Proof.
  unfold g_check_type. destruct (Nat.ltb i (List.length ts)) eqn:E.
  - apply Nat.ltb_lt in E. destruct (nth_error ts i) eqn:N; [reflexivity|].
    apply nth_error_None in N. lia.
  - apply Nat.ltb_ge in E. apply nth_error_None in E. rewrite E. reflexivity.
Qed.

Lemma next_is_one_of_src tags ts : g_next_is_one_of tags ts = POk (head_in tags ts, ts).
Proof.
  unfold g_next_is_one_of.
  assert (H : g_any (fun v_tag ts1 => dop (x2, ts3) <- g_check_type 0 v_tag ts1; POk (x2, ts3)) tags ts
              = POk (head_in tags ts, ts)).
  { induction tags as [|tag tags IH]; cbn [g_any].
    - destruct ts; reflexivity.
    - rewrite check_type_src. cbn [pbind]. destruct ts as [|t ts]; cbn [nth_error head_in existsb].
      + rewrite IH. reflexivity.
      + destruct (tagb tag t); [reflexivity|]. rewrite IH. reflexivity. }
  rewrite H. reflexivity.
Qed.

Lemma skipn_S_cons {A} (k : nat) : forall (l : list A) x r, skipn k l = x :: r -> skipn (S k) l = r /\ nth_error l k = Some x.
Proof.
  induction k as [|k IH]; intros l x r H.
  - cbn in H. subst l. split; reflexivity.
  - destruct l as [|y l]; [discriminate|]. cbn [skipn] in H. destruct (IH _ _ _ H) as [A1 A2]. split; [exact A1|exact A2].
Qed.
Lemma skipn_nil_nth {A} (k : nat) : forall (l : list A), skipn k l = [] -> nth_error l k = None.
Proof.
  induction k as [|k IH]; intros l H.
  - cbn in H. subst l. reflexivity.
  - destruct l as [|y l]; [reflexivity|]. cbn [skipn] in H. exact (IH _ H).
Qed.

Lemma all_check_src tags : forall k ts,
  g_all (fun '(v_i, v_tag) ts1 => dop (x2, ts3) <- g_check_type v_i v_tag ts1; POk (x2, ts3))
        (combine (seq k (List.length tags)) tags) ts = POk (prefix_is tags (skipn k ts), ts).
Proof.
  induction tags as [|tag tags IH]; intros k ts; cbn [List.length seq combine g_all prefix_is]; [reflexivity|].
  rewrite check_type_src. cbn [pbind].
  destruct (skipn k ts) as [|t r] eqn:Sk.
  - rewrite (skipn_nil_nth _ _ Sk). reflexivity.
  - destruct (skipn_S_cons _ _ _ _ Sk) as [A1 A2]. rewrite A2.
    destruct (tagb tag t); cbn [andb]; [|reflexivity].
    rewrite IH, A1. reflexivity.
Qed.

Lemma next_are_src tags ts : g_next_are tags ts = POk (prefix_is tags ts, ts).
Proof. unfold g_next_are. rewrite all_check_src. reflexivity. Qed.

Lemma next_is_src tag ts : g_next_is tag ts = POk (prefix_is [tag] ts, ts).
Proof. unfold g_next_is. rewrite next_are_src. reflexivity. Qed.

Lemma empty_src ts : g_empty ts = POk (match ts with [] => true | _ => false end, ts).
Proof. unfold g_empty. destruct ts; reflexivity. Qed.

Lemma read_any_src ts : g_read_any ts = match ts with t :: r => POk (t, r) | [] => PErr 0 end.
Proof. unfold g_read_any, g_read_single_token. destruct ts; reflexivity. Qed.

Lemma read_src tag ts :
  g_read tag ts = match ts with
                  | t :: r => if String.eqb (tag_of t) tag then POk (t, r) else PErr (S (List.length r))
                  | [] => PErr 0
                  end.
Proof.
  unfold g_read, g_read_single_token. destruct ts as [|t r]; [reflexivity|].
  cbn [List.length Nat.leb nth_error skipn pbind]. destruct (String.eqb (tag_of t) tag); reflexivity.
Qed.

Ltac specs := rewrite ?next_is_one_of_src, ?next_are_src, ?next_is_src, ?empty_src, ?read_any_src, ?read_src.
(* ev: the monad and the data; evb: the token tests (only sensible on a token list with a known head) *)
Ltac ev := cbn [pbind fst snd negb andb orb
                nonempty g_lift meta_name meta_num meta_str meta_inst scale_lit is_int_lit lit_int err Nat.add
                List.length nth_error app tl
                g_funcall_node g_funcall_args g_quantity_node g_unit_convert_node g_make_array_node
                g_make_array_with_condition_node g_make_generator_node g_UnitSignature].
(* comparisons of two known tag strings are evaluated by vm_compute (much faster than cbn on strings) *)
Ltac evs := repeat match goal with
  | |- context [tagb ?a ?b] =>
      let r := eval vm_compute in (tagb a b) in
      lazymatch r with
      | true => change (tagb a b) with true
      | false => change (tagb a b) with false
      end
  | |- context [String.eqb ?a ?b] =>
      let r := eval vm_compute in (String.eqb a b) in
      lazymatch r with
      | true => change (String.eqb a b) with true
      | false => change (String.eqb a b) with false
      end
  end.
Ltac evb := cbn [head_in prefix_is tagb existsb
                 starts_rp starts_rbrace starts_colon starts_var_colon read_comma]; evs; cbn [orb andb negb].
Ltac dlist ts := let t := fresh "t" in destruct ts as [|t ts]; [|destruct t].
Ltac go := ev; repeat (progress specs; ev).
Ltac gob := evb; ev; repeat (progress specs; evb; ev).

Lemma parse_integer_is_source ts : p_integer ts = g_parse_integer ts.
Proof.
  unfold p_integer, g_parse_integer. go.
  dlist ts; gob; try reflexivity.
  all: dlist ts; gob; try reflexivity.
  all: match goal with n : numlit |- _ => destruct n; reflexivity end.
Qed.

Ltac fin := try reflexivity; try (rewrite ?app_nil_r, <- ?app_assoc; reflexivity).
Ltac dres r := let a := fresh "a" in let ts' := fresh "ts" in destruct r as [[a ts']| |].

Lemma g_while_S {S : Type} f (c : S -> parser bool) (b : S -> parser (ctl S)) s ts :
  g_while (Datatypes.S f) c b s ts
  = dop (b0, ts1) <- c s ts;
    if b0 then dop (c0, ts2) <- b s ts1;
               match c0 with Next s' => g_while f c b s' ts2 | Break s' => POk (s', ts2) end
    else POk (s, ts1).
Proof. reflexivity. Qed.
(* one step of a loop: unfold once, hide the remaining iterations (and the induction hypothesis) behind W *)
Ltac loop_step W := rewrite g_while_S; match goal with |- context [g_while ?f ?c ?b] => set (W := g_while f c b) in *; clearbody W end.
Lemma parse_units_is_source ts : p_units ts = g_parse_units ts.
Proof.
  unfold p_units, g_parse_units.
  match goal with |- context [g_while _ ?c ?b _ _] =>
    assert (L : forall fuel acc ts, g_while fuel c b acc ts
                = dop (l, ts') <- units_loop fuel ts; POk (acc ++ l, ts')) end.
  { induction fuel as [|f IH]; intros acc ts0; [reflexivity|].
    loop_step W. cbn [units_loop]. go.
    dlist ts0; gob; fin.
    dlist ts0; gob; rewrite ?IH; fin.
    all: try (match goal with |- context [units_loop ?f ?x] => dres (units_loop f x) end; go; fin).
    rewrite <- parse_integer_is_source. dres (p_integer ts0); go; fin.
    rewrite IH. dres (units_loop f ts1); go; fin. }
  cbn zeta. rewrite L. dres (units_loop (S (List.length ts)) ts); go; fin.
  destruct a; reflexivity.
Qed.

Lemma parse_unit_signature_is_source ts : p_usig ts = g_parse_unit_signature ts.
Proof.
  unfold p_usig, g_parse_unit_signature. rewrite <- parse_units_is_source.
  dres (p_units ts); go; fin.
  dlist ts0; gob; fin.
  rewrite <- parse_units_is_source. dres (p_units ts0); go; fin.
Qed.

(* the model's token tests, in the vocabulary of the method specifications *)
Lemma starts_rp_spec ts : starts_rp ts = head_in [")"] ts.
Proof. dlist ts; reflexivity. Qed.
Lemma starts_rbrace_spec ts : starts_rbrace ts = prefix_is ["}"] ts.
Proof. dlist ts; reflexivity. Qed.
Lemma starts_colon_spec ts : starts_colon ts = prefix_is [":"] ts.
Proof. dlist ts; reflexivity. Qed.
Lemma starts_var_colon_spec ts : starts_var_colon ts = prefix_is ["identifier"; ":"] ts.
Proof. dlist ts; try reflexivity. dlist ts; reflexivity. Qed.
Lemma read_comma_spec ts :
  read_comma ts = match ts with
                  | t :: r => if String.eqb (tag_of t) "," then POk r else PErr (S (List.length r))
                  | [] => PErr 0
                  end.
Proof. dlist ts; reflexivity. Qed.
Ltac bridge := rewrite ?starts_rp_spec, ?starts_rbrace_spec, ?starts_colon_spec, ?starts_var_colon_spec, ?read_comma_spec.
Ltac gb := repeat (bridge; specs; ev).
Ltac dcall := match goal with |- context [pbind ?r _] =>
  lazymatch r with pbind _ _ => fail | POk _ => fail | PErr _ => fail | PFuel => fail | _ => dres r end end; ev; fin.
Ltac dbool := match goal with |- context [if ?b then _ else _] => destruct b eqn:? end.

Lemma parse_variable_is_source ts :
  match ts with KVar x :: r => POk (PVar x, r) | _ => err ts end = g_parse_variable ts.
Proof. unfold g_parse_variable. dlist ts; gob; fin. Qed.
Lemma parse_number_is_source ts :
  match ts with KNum n :: r => POk (PNum n, r) | _ => err ts end = g_parse_number ts.
Proof. unfold g_parse_number. dlist ts; gob; fin. Qed.
Lemma parse_string_is_source ts :
  match ts with KStr s :: r => POk (PStr s, r) | _ => err ts end = g_parse_string ts.
Proof. unfold g_parse_string. dlist ts; gob; fin. Qed.
Lemma parse_instant_is_source ts :
  match ts with KInst s :: r => POk (PInst s, r) | _ => err ts end = g_parse_instant ts.
Proof. unfold g_parse_instant. dlist ts; gob; fin. Qed.

Lemma prefix_is_one tag ts :
  prefix_is [tag] ts = true -> exists t r, ts = t :: r /\ String.eqb (tag_of t) tag = true.
Proof.
  destruct ts as [|t r]; cbn [prefix_is]; [discriminate|]. rewrite andb_true_r. unfold tagb.
  intros E. exists t, r. split; [reflexivity|]. rewrite String.eqb_sym. exact E.
Qed.

(* `while t.next_are(","): t.read_any(); l.append(item(t))` against the model's comma_loop *)
Lemma comma_loop_gen {A : Type} (item : parser A) (c : list A -> parser bool) (b : list A -> parser (ctl (list A))) :
  (forall acc ts, c acc ts = POk (prefix_is [","] ts, ts)) ->
  (forall acc t ts, b acc (t :: ts) = dop (x, ts3) <- item ts; POk (Next (acc ++ [x]), ts3)) ->
  forall fuel acc ts, g_while fuel c b acc ts = dop (l, ts') <- comma_loop item fuel ts; POk (acc ++ l, ts').
Proof.
  intros Hc Hb. induction fuel as [|f IH]; intros acc ts; [reflexivity|].
  rewrite g_while_S, Hc. cbn [pbind comma_loop].
  dlist ts; evb; ev; fin.
  rewrite Hb. dres (item ts); ev; fin. rewrite IH. dcall.
Qed.

(* the loop of parse_binary_op against the model's binloop *)
Lemma binloop_gen (operand : parser ptree) (isop : tok -> option string) (tags : list string)
      (c : ptree -> parser bool) (b : ptree -> parser (ctl ptree)) :
  (forall t, isop t = if existsb (fun tag => tagb tag t) tags then Some (tag_of t) else None) ->
  (forall left ts, c left ts = POk (head_in tags ts, ts)) ->
  (forall left t ts, b left (t :: ts) = dop (r, ts2) <- operand ts; POk (Next (PCall (tag_of t) [left; r] []), ts2)) ->
  forall fuel left ts, g_while fuel c b left ts = binloop operand isop fuel left ts.
Proof.
  intros Hi Hc Hb. induction fuel as [|f IH]; intros left ts; [reflexivity|].
  rewrite g_while_S, Hc. cbn [pbind binloop]. unfold head_in.
  destruct ts as [|t ts]; [reflexivity|]. rewrite Hi.
  destruct (existsb (fun tag => tagb tag t) tags); [|reflexivity].
  rewrite Hb. dres (operand ts); ev; fin. apply IH.
Qed.

Lemma parse_binary_op_is_source (operand operand' : parser ptree) isop tags :
  (forall ts, operand ts = operand' ts) ->
  (forall t, isop t = if existsb (fun tag => tagb tag t) tags then Some (tag_of t) else None) ->
  forall ts, binlevel operand isop ts = g_parse_binary_op operand' tags ts.
Proof.
  intros Ho Hi ts. unfold binlevel, g_parse_binary_op. rewrite <- Ho. dres (operand ts); ev; fin.
  rewrite (binloop_gen operand isop tags); [dcall | exact Hi | |].
  - intros left ts1. go. reflexivity.
  - intros left t ts1. go. rewrite <- Ho. reflexivity.
Qed.

(* ------------------------------------------------------------------ node builders, module constants *)
Lemma funcall_node_is_source n c : PCall n c [] = g_funcall_node n c.
Proof. reflexivity. Qed.
Lemma quantity_node_is_source e u : PQty e u = g_quantity_node e u.
Proof. reflexivity. Qed.
Lemma unit_convert_node_is_source e u : PConv e u = g_unit_convert_node e u.
Proof. reflexivity. Qed.
Lemma make_array_node_is_source l : PArr l = g_make_array_node l.
Proof. reflexivity. Qed.
Lemma FORWARD_OPS_is_source o : is_forward o = mem_str (cmp_name o) g_FORWARD_OPS.
Proof. destruct o; reflexivity. Qed.
Lemma BACKWARD_OPS_is_source o : is_backward o = mem_str (cmp_name o) g_BACKWARD_OPS.
Proof. destruct o; reflexivity. Qed.
(* FORWARD_OPS[BACKWARD_OPS.index(op)] is the model's flip_op *)
Lemma flip_is_source o : is_backward o = true ->
  option_map (fun k => nth_error g_FORWARD_OPS k) (index_of (cmp_name o) g_BACKWARD_OPS) = Some (Some (cmp_name (flip_op o))).
Proof. destruct o; intros H; try discriminate H; reflexivity. Qed.

(* ------------------------------------------------------------------ make_comparison_node *)
Lemma anyP_pure {X : Type} (p : X -> bool) l : g_anyP (fun x => POk (p x)) l = POk (existsb p l).
Proof. induction l as [|x l IH]; [reflexivity|]. cbn [g_anyP pbind existsb]. destruct (p x); [reflexivity|exact IH]. Qed.

Lemma existsb_map' {X Y : Type} (f : X -> Y) (p : Y -> bool) l : existsb p (map f l) = existsb (fun x => p (f x)) l.
Proof. induction l as [|x l IH]; [reflexivity|]. cbn [map existsb]. rewrite IH. reflexivity. Qed.

Lemma existsb_ext' {X : Type} (p q : X -> bool) l : (forall x, p x = q x) -> existsb p l = existsb q l.
Proof. intros H. induction l as [|x l IH]; [reflexivity|]. cbn [existsb]. rewrite H, IH. reflexivity. Qed.

Lemma g_whileP_S {S : Type} f (c : S -> pres bool) (b : S -> pres (ctl S)) s :
  g_whileP (Datatypes.S f) c b s
  = dop b0 <- c s; if b0 then dop c0 <- b s; match c0 with Next s' => g_whileP f c b s' | Break s' => POk s' end
                   else POk s.
Proof. reflexivity. Qed.

Lemma nth_error_mid {X : Type} (pre : list X) x post : nth_error (pre ++ x :: post) (List.length pre) = Some x.
Proof. induction pre as [|y pre IH]; [reflexivity|exact IH]. Qed.
Lemma list_set_mid {X : Type} (pre : list X) x v post :
  list_set (pre ++ x :: post) (List.length pre) v = Some (pre ++ v :: post).
Proof. induction pre as [|y pre IH]; [reflexivity|]. cbn [app List.length list_set]. rewrite IH. reflexivity. Qed.

Lemma make_comparison_node_is_source terms ops :
  POk (mk_cmp terms ops) = g_make_comparison_node terms (map cmp_name ops).
Proof.
  unfold g_make_comparison_node, mk_cmp.
  rewrite !anyP_pure, !existsb_map'. cbn [pbind].
  rewrite (existsb_ext' (fun x => mem_str (cmp_name x) g_BACKWARD_OPS) is_backward) by (intros o; destruct o; reflexivity).
  destruct (existsb is_backward ops); cbn [pbind andb]; [|reflexivity].
  rewrite (existsb_ext' (fun x => mem_str (cmp_name x) g_FORWARD_OPS) is_forward) by (intros o; destruct o; reflexivity).
  destruct (existsb is_forward ops); cbn [pbind negb]; [reflexivity|].
  match goal with |- context [g_whileP _ ?c ?b _] => set (C := c); set (B := b) end.
  assert (L : forall post (P : list string) fuel, List.length post < fuel ->
              g_whileP fuel C B (P ++ map cmp_name post, List.length P)
              = POk (P ++ map cmp_name (map flip_op post), List.length P + List.length post)).
  { induction post as [|o post IH]; intros P fuel Hf; (destruct fuel as [|f]; [inversion Hf|]); rewrite g_whileP_S.
    - unfold C. cbn [map app List.length pbind]. rewrite app_nil_r, Nat.ltb_irrefl, Nat.add_0_r. reflexivity.
    - cbn [List.length] in Hf.
      assert (IH' : forall v, g_whileP f C B (P ++ v :: map cmp_name post, (List.length P + 1)%nat)
                              = POk (P ++ v :: map cmp_name (map flip_op post), List.length P + S (List.length post))).
      { intros v. specialize (IH (P ++ [v]) f ltac:(lia)). rewrite <- !app_assoc, app_length in IH. cbn [app List.length] in IH.
        rewrite IH. f_equal. f_equal. lia. }
      set (W := g_whileP f C B) in *. clearbody W. unfold C, B.
      cbn [pbind map]. rewrite app_length. cbn [List.length]. rewrite map_length.
      replace (List.length P <? List.length P + S (List.length post)) with true by (symmetry; apply Nat.ltb_lt; lia).
      rewrite !nth_error_mid.
      destruct o; cbn [cmp_name tok_of_cmp tag_of mem_str existsb String.eqb Ascii.eqb Bool.eqb orb g_BACKWARD_OPS
                        g_FORWARD_OPS index_of option_map nth_error flip_op];
        rewrite ?list_set_mid; cbn [pbind]; apply IH'. }
  specialize (L ops [] (S (List.length (map cmp_name ops)))). cbn [map app List.length Nat.add] in L.
  rewrite L by (rewrite map_length; lia). cbn [pbind].
  rewrite (map_rev cmp_name). reflexivity.
Qed.

Lemma cmp_tag t o : cmp_of_tok t = Some o -> tag_of t = cmp_name o.
Proof. destruct t; intros H; inversion H; reflexivity. Qed.
Lemma make_comparison_node_toks terms toks ops :
  map cmp_of_tok toks = map Some ops -> g_make_comparison_node terms (map tag_of toks) = POk (mk_cmp terms ops).
Proof.
  intros H. rewrite make_comparison_node_is_source. f_equal.
  revert ops H. induction toks as [|t toks IH]; intros [|o ops] H; try discriminate H; [reflexivity|].
  cbn [map] in *. inversion H as [[H1 H2]]. rewrite (cmp_tag _ _ H1), (IH _ H2). reflexivity.
Qed.
(* the eight comparison tokens of parse_comparison are exactly the tokens cmp_of_tok knows *)
Lemma cmp_head t ts :
  head_in ["=="; "!="; "<"; ">"; "<="; ">="; "="; "in"] (t :: ts)
  = match cmp_of_tok t with Some _ => true | None => false end.
Proof. destruct t; reflexivity. Qed.

Section Levels.
Variables pe pe' : parser ptree.
Hypothesis Hpe : forall ts, pe ts = pe' ts.
Ltac dpe := rewrite <- ?Hpe; match goal with |- context [pe ?x] => dres (pe x) end; ev; fin.

Lemma parse_positional_args_is_source ts :
  pos_args pe (S (List.length ts)) true ts = g_parse_positional_args pe' ts.
Proof.
  unfold g_parse_positional_args.
  match goal with |- context [g_while _ ?c ?b _ _] =>
    assert (L : forall fuel acc ts, g_while fuel c b acc ts
                = dop (l, ts') <- pos_args pe fuel (negb (nonempty acc)) ts; POk (acc ++ l, ts')) end.
  { induction fuel as [|f IH]; intros acc ts0; [reflexivity|].
    loop_step W. cbn [pos_args]. bridge. go.
    destruct (head_in [")"] ts0); ev; fin.
    destruct acc as [|a0 acc]; go; bridge.
    - destruct (prefix_is ["identifier"; ":"] ts0); ev; fin.
      dpe. rewrite IH. ev. dres (pos_args pe f false ts1); ev; fin.
    - destruct ts0 as [|t0 ts0]; fin. destruct (String.eqb (tag_of t0) ","); ev; fin.
      gb. destruct (prefix_is ["identifier"; ":"] ts0); ev; fin.
      dpe. rewrite IH. ev. dres (pos_args pe f false ts1); ev; fin. }
  cbn zeta. rewrite L. go. dres (pos_args pe (S (List.length ts)) true ts); go; fin.
Qed.

Lemma parse_keyword_args_is_source ts :
  kw_args pe (S (List.length ts)) true ts = g_parse_keyword_args pe' ts.
Proof.
  unfold g_parse_keyword_args.
  match goal with |- context [g_while _ ?c ?b _ _] =>
    assert (L : forall fuel acc ts, g_while fuel c b acc ts
                = dop (l, ts') <- kw_args pe fuel (negb (nonempty acc)) ts; POk (acc ++ l, ts')) end.
  { induction fuel as [|f IH]; intros acc ts0; [reflexivity|].
    loop_step W. cbn [kw_args]. gb.
    destruct (head_in [")"] ts0); ev; fin.
    destruct acc as [|a0 acc]; gb.
    - (* first keyword argument *)
      dlist ts0; gob; fin. dlist ts0; gob; fin.
      dpe. rewrite IH. ev. dcall.
    - destruct ts0 as [|t0 ts0]; fin. destruct (String.eqb (tag_of t0) ","); ev; fin.
      gb. dlist ts0; gob; fin. dlist ts0; gob; fin.
      dpe. rewrite IH. ev. dcall. }
  cbn zeta. rewrite L. go. dres (kw_args pe (S (List.length ts)) true ts); go; fin.
Qed.

Lemma parse_args_is_source ts :
  (dop (a, ts1) <- pos_args pe (S (List.length ts)) true ts;
   dop (k, ts2) <- kw_args pe (S (List.length ts1)) true ts1; POk ((a, k), ts2)) = g_parse_args pe' ts.
Proof.
  unfold g_parse_args. rewrite <- parse_positional_args_is_source. dcall.
  rewrite <- parse_keyword_args_is_source. dcall.
Qed.

Lemma parse_function_is_source ts :
  match ts with
  | KVar n :: ts1 => match ts1 with KLP :: ts2 => p_call pe n ts2 | _ => err ts1 end
  | _ => err ts
  end = g_parse_function pe' ts.
Proof.
  unfold g_parse_function, g_parse_args, p_call.
  dlist ts; gob; fin. dlist ts; gob; fin.
  rewrite <- parse_positional_args_is_source.
  dres (pos_args pe (S (List.length ts)) true ts); ev; fin.
  rewrite <- parse_keyword_args_is_source.
  dres (kw_args pe (S (List.length ts0)) true ts0); ev; fin.
  dlist ts1; gob; fin.
Qed.

Lemma parse_unsigned_term_without_factorial_is_source ts :
  p_atom pe ts = g_parse_unsigned_term_without_factorial pe' ts.
Proof.
  unfold p_atom, g_parse_unsigned_term_without_factorial, g_parse_number, g_parse_variable.
  dlist ts; gob; fin.
  - dpe. dlist ts0; gob; fin.
  - dlist ts; gob; fin.
    rewrite <- parse_function_is_source. ev. dcall.
Qed.

Lemma parse_unsigned_term_is_source ts : p_unsigned pe ts = g_parse_unsigned_term pe' ts.
Proof.
  unfold p_unsigned, g_parse_unsigned_term. rewrite <- parse_unsigned_term_without_factorial_is_source.
  dcall. dlist ts0; gob; fin.
Qed.

Lemma parse_unitless_term_is_source ts : p_unitless pe ts = g_parse_unitless_term pe' ts.
Proof.
  unfold p_unitless, g_parse_unitless_term.
  dlist ts; gob; rewrite <- parse_unsigned_term_is_source; dcall.
Qed.

Lemma parse_maybe_quantity_is_source ts : p_mq pe ts = g_parse_maybe_quantity pe' ts.
Proof.
  unfold p_mq, g_parse_maybe_quantity. rewrite <- parse_unitless_term_is_source.
  dcall. dlist ts0; gob; fin.
  rewrite <- parse_unit_signature_is_source. dcall.
Qed.

Lemma parse_maybe_range_is_source ts : p_mr pe ts = g_parse_maybe_range pe' ts.
Proof.
  unfold p_mr, g_parse_maybe_range. rewrite <- parse_maybe_quantity_is_source.
  dcall. dlist ts0; gob; fin.
  rewrite <- parse_maybe_quantity_is_source. dcall.
Qed.

Lemma parse_clause_is_source ts : p_clause pe ts = g_parse_clause pe' ts.
Proof.
  unfold p_clause, g_parse_clause.
  dlist ts; gob; try (dpe; fail).
  dlist ts; gob; dpe.
Qed.

Lemma parse_array_is_source ts :
  match ts with KLBrace :: r => p_array pe r | _ => err ts end = g_parse_array pe' ts.
Proof.
  unfold g_parse_array. go. destruct ts as [|t ts]; [reflexivity|].
  destruct (String.eqb (tag_of t) "{") eqn:E; [|destruct t; try discriminate E; reflexivity].
  destruct t; try discriminate E. clear E. unfold p_array. gb.
  destruct (prefix_is ["}"] ts) eqn:E.
  - destruct (prefix_is_one _ _ E) as (t & r & -> & Et). ev. rewrite Et. reflexivity.
  - ev. dpe. gb. destruct (prefix_is [":"] ts0) eqn:Ec; ev.
    + destruct (prefix_is_one _ _ Ec) as (t & r & -> & Et). ev.
      rewrite <- parse_clause_is_source. dcall.
      rewrite (comma_loop_gen (p_clause pe)).
      * ev. dcall. dlist ts1; gob; fin.
      * intros acc ts2. go. reflexivity.
      * intros acc t1 ts2. go. rewrite <- parse_clause_is_source. reflexivity.
    + rewrite (comma_loop_gen pe).
      * ev. dcall. dlist ts1; gob; fin.
      * intros acc ts2. go. reflexivity.
      * intros acc t1 ts2. go. rewrite <- Hpe. reflexivity.
Qed.

Lemma parse_interval_is_source ts :
  match ts with KLBrack :: r => p_interval pe r | _ => err ts end = g_parse_interval pe' ts.
Proof.
  unfold g_parse_interval, p_interval. dlist ts; gob; fin.
  dpe. dlist ts0; gob; fin. dpe. dlist ts1; gob; fin.
Qed.

Lemma parse_term_is_source ts : p_term pe ts = g_parse_term pe' ts.
Proof.
  unfold p_term, g_parse_term, g_parse_string, g_parse_instant.
  dlist ts; gob; fin.
  all: try (rewrite <- parse_maybe_range_is_source; dcall; fail).
  - rewrite <- parse_array_is_source. dcall.
  - rewrite <- parse_interval_is_source. dcall.
Qed.

Lemma parse_factor_is_source ts : p_factor pe ts = g_parse_factor pe' ts.
Proof.
  unfold p_factor, g_parse_factor.
  rewrite <- (parse_binary_op_is_source (p_term pe) _ pow_op); [dcall | exact parse_term_is_source |].
  intros t; destruct t; reflexivity.
Qed.

Lemma parse_product_is_source ts : p_product pe ts = g_parse_product pe' ts.
Proof.
  unfold p_product, g_parse_product.
  rewrite <- (parse_binary_op_is_source (p_factor pe) _ mul_op); [dcall | exact parse_factor_is_source |].
  intros t; destruct t; reflexivity.
Qed.

Lemma parse_sum_is_source ts : p_sum pe ts = g_parse_sum pe' ts.
Proof.
  unfold p_sum, g_parse_sum.
  rewrite <- (parse_binary_op_is_source (p_product pe) _ add_op); [dcall | exact parse_product_is_source |].
  intros t; destruct t; reflexivity.
Qed.

Lemma parse_comparison_is_source ts : p_cmp pe ts = g_parse_comparison pe' ts.
Proof.
  unfold p_cmp, g_parse_comparison. rewrite <- parse_sum_is_source. dcall.
  cbn [g_for_range]. go.
  destruct ts0 as [|t1 ts0]; [reflexivity|]. rewrite cmp_head.
  destruct (cmp_of_tok t1) as [o1|] eqn:E1; ev; [|reflexivity].
  go. rewrite <- parse_sum_is_source. dcall. go.
  destruct ts1 as [|t2 ts1].
  - evb; ev. rewrite (make_comparison_node_toks _ [t1] [o1]) by (cbn [map]; rewrite E1; reflexivity). reflexivity.
  - rewrite cmp_head. destruct (cmp_of_tok t2) as [o2|] eqn:E2; ev.
    + go. rewrite <- parse_sum_is_source. dcall.
      rewrite (make_comparison_node_toks _ [t1; t2] [o1; o2]) by (cbn [map]; rewrite E1, E2; reflexivity). reflexivity.
    + rewrite (make_comparison_node_toks _ [t1] [o1]) by (cbn [map]; rewrite E1; reflexivity). reflexivity.
Qed.

Lemma parse_unit_convert_is_source c ts :
  match ts with KTo :: r => dop (u, ts3) <- p_usig r; POk (PConv c u, ts3) | _ => err ts end
  = g_parse_unit_convert c ts.
Proof.
  unfold g_parse_unit_convert. dlist ts; gob; fin. rewrite <- parse_unit_signature_is_source. dcall.
Qed.

Lemma parse_expression_is_source ts : p_expr pe ts = g_parse_expression pe' ts.
Proof.
  unfold p_expr, g_parse_expression. rewrite <- parse_comparison_is_source. dcall.
  dlist ts0; gob; fin. rewrite <- parse_unit_convert_is_source. ev. dcall.
Qed.

Lemma parse_assignment_is_source ts :
  match ts with
  | KVar x :: ts1 => match ts1 with KAssign :: ts2 => dop (e, ts3) <- p_expr pe ts2; POk (PAssign x e, ts3) | _ => err ts1 end
  | _ => err ts
  end = g_parse_assignment pe' ts.
Proof.
  unfold g_parse_assignment. dlist ts; gob; fin. dlist ts; gob; fin.
  rewrite <- parse_expression_is_source. dcall.
Qed.

Lemma parse_statement_is_source ts : p_statement pe ts = g_parse_statement pe' ts.
Proof.
  unfold p_statement, g_parse_statement.
  dlist ts; gob; try (rewrite <- parse_expression_is_source; dcall; fail).
  dlist ts; gob; try (rewrite <- parse_expression_is_source; dcall; fail).
  rewrite <- parse_assignment_is_source. ev. dcall.
Qed.
End Levels.

(* ------------------------------------------------------------------ progress of the model parser
   (needed for parse_statements only: the source tests `t.empty()` once more after the last statement, the model
   does not, so the two loops agree only when the loop fuel exceeds the number of tokens left) *)
Notation progresses p := (forall ts a ts', p ts = POk (a, ts') -> List.length ts' < List.length ts) (only parsing).
Notation nonincr p := (forall ts a ts', p ts = POk (a, ts') -> List.length ts' <= List.length ts) (only parsing).

Create HintDb prog.

Ltac pinv H :=
  repeat (unfold err in H; cbn [pbind] in H;
    lazymatch type of H with
    | POk _ = POk _ => inversion H; subst; clear H
    | PErr _ = POk _ => discriminate H
    | PFuel = POk _ => discriminate H
    | pbind ?r _ = POk _ =>
        let E := fresh "E" in let x := fresh "x" in
        destruct r as [x| |] eqn:E; cbn [pbind] in H;
        [ try (let T := type of x in let T' := eval hnf in T in lazymatch T' with prod _ _ => destruct x end)
        | discriminate H | discriminate H ]
    | (if ?b then _ else _) = POk _ => destruct b eqn:?
    | (match ?x with _ => _ end) = POk _ => destruct x eqn:?
    | (let '(_, _) := ?x in _) = POk _ => destruct x eqn:?
    end).
Ltac pinv_more := repeat match goal with
  | E : (match _ with _ => _ end) = POk _ |- _ => pinv E
  | E : (if _ then _ else _) = POk _ |- _ => pinv E
  | E : pbind _ _ = POk _ |- _ => pinv E
  end.
Ltac use_prog := repeat match goal with
  | E : ?f ?ts = POk (?a, ?ts') |- _ =>
      first [ assert (List.length ts' < List.length ts) by (eauto 3 with prog)
            | assert (List.length ts' <= List.length ts) by (eauto 3 with prog) ];
      revert E
  end; intros.
Ltac prog := let H := fresh "H" in intros ? ? ? H; pinv H; pinv_more; subst; use_prog; cbn [List.length] in *; try lia.

Lemma p_integer_prog : progresses p_integer.
Proof.
  intros ts a ts' H. unfold p_integer in H.
  destruct ts as [|t ts]; [discriminate H|].
  destruct t; cbn in H; try discriminate H.
  all: try (destruct ts as [|[] ts]; cbn in H; try discriminate H).
  all: destruct n; inversion H; subst; cbn [List.length]; lia.
Qed.
#[export] Hint Resolve p_integer_prog : prog.

Lemma units_loop_prog fuel : forall ts l ts', units_loop fuel ts = POk (l, ts') ->
  List.length ts' <= List.length ts /\ (l <> [] -> List.length ts' < List.length ts).
Proof.
  induction fuel as [|f IH]; intros ts l ts' H; [discriminate H|].
  cbn [units_loop] in H. pinv H; pinv_more; subst.
  all: try (split; [lia|congruence]).
  all: match goal with E : units_loop _ _ = POk _ |- _ => apply IH in E; destruct E as [E1 E2] end.
  all: use_prog; cbn [List.length] in *; split; intros; lia.
Qed.

Lemma p_units_prog : progresses p_units.
Proof.
  intros ts a ts' H. unfold p_units in H. pinv H.
  match goal with E : units_loop _ _ = POk _ |- _ => apply units_loop_prog in E; destruct E as [_ E]; apply E; discriminate end.
Qed.
#[export] Hint Resolve p_units_prog : prog.

Lemma p_usig_prog : progresses p_usig.
Proof. unfold p_usig. prog. Qed.
#[export] Hint Resolve p_usig_prog : prog.

Section Progress.
Variable pe : parser ptree.
Hypothesis Hpe : progresses pe.
Hint Resolve Hpe : prog.

Lemma pos_args_prog fuel : forall first, nonincr (pos_args pe fuel first).
Proof.
  induction fuel as [|f IH]; intros first ts a ts' H; [discriminate H|].
  cbn [pos_args] in H. unfold read_comma in H. pinv H; pinv_more; subst.
  all: repeat match goal with E : pos_args pe _ _ _ = POk _ |- _ => apply IH in E end.
  all: use_prog; cbn [List.length] in *; lia.
Qed.
Lemma kw_args_prog fuel : forall first, nonincr (kw_args pe fuel first).
Proof.
  induction fuel as [|f IH]; intros first ts a ts' H; [discriminate H|].
  cbn [kw_args] in H. unfold read_comma in H. pinv H; pinv_more; subst.
  all: repeat match goal with E : kw_args pe _ _ _ = POk _ |- _ => apply IH in E end.
  all: use_prog; cbn [List.length] in *; lia.
Qed.
Lemma p_call_prog name : progresses (p_call pe name).
Proof.
  intros ts a ts' H. unfold p_call in H. pinv H; subst.
  repeat match goal with
         | E : pos_args pe _ _ _ = POk _ |- _ => apply pos_args_prog in E
         | E : kw_args pe _ _ _ = POk _ |- _ => apply kw_args_prog in E
         end.
  cbn [List.length] in *. lia.
Qed.
Hint Resolve p_call_prog : prog.

Lemma p_atom_prog : progresses (p_atom pe).
Proof. unfold p_atom. prog. Qed.
Hint Resolve p_atom_prog : prog.
Lemma p_unsigned_prog : progresses (p_unsigned pe).
Proof. unfold p_unsigned. prog. Qed.
Hint Resolve p_unsigned_prog : prog.
Lemma p_unitless_prog : progresses (p_unitless pe).
Proof. unfold p_unitless. prog. Qed.
Hint Resolve p_unitless_prog : prog.
Lemma p_mq_prog : progresses (p_mq pe).
Proof. unfold p_mq. prog. Qed.
Hint Resolve p_mq_prog : prog.
Lemma p_mr_prog : progresses (p_mr pe).
Proof. unfold p_mr. prog. Qed.
Hint Resolve p_mr_prog : prog.
Lemma p_clause_prog : progresses (p_clause pe).
Proof. unfold p_clause. prog. Qed.
Hint Resolve p_clause_prog : prog.

Lemma comma_loop_prog {A : Type} (item : parser A) : progresses item -> forall fuel, nonincr (comma_loop item fuel).
Proof.
  intros Hi. induction fuel as [|f IH]; intros ts a ts' H; [discriminate H|].
  cbn [comma_loop] in H. pinv H; subst.
  all: repeat match goal with E : comma_loop _ _ _ = POk _ |- _ => apply IH in E end.
  all: repeat match goal with E : _ _ = POk _ |- _ => apply Hi in E end.
  all: cbn [List.length] in *; lia.
Qed.

Lemma p_array_prog : nonincr (p_array pe).
Proof.
  intros ts a ts' H. unfold p_array, starts_rbrace, starts_colon in H. pinv H; subst.
  all: repeat match goal with
         | E : comma_loop (p_clause pe) _ _ = POk _ |- _ => apply (comma_loop_prog _ p_clause_prog) in E
         | E : comma_loop pe _ _ = POk _ |- _ => apply (comma_loop_prog _ Hpe) in E
         end.
  all: use_prog; cbn [List.length tl] in *.
  all: try lia.
  all: repeat match goal with
              | H : context [tl ?l] |- _ => destruct l; cbn [tl List.length] in *
              | |- context [tl ?l] => destruct l; cbn [tl List.length] in *
              end; try discriminate; lia.
Qed.
Lemma p_interval_prog : progresses (p_interval pe).
Proof. unfold p_interval. prog. Qed.

Lemma p_term_prog : progresses (p_term pe).
Proof.
  intros ts a ts' H. unfold p_term in H. pinv H; subst.
  all: repeat match goal with
         | E : p_array pe _ = POk _ |- _ => apply p_array_prog in E
         | E : p_interval pe _ = POk _ |- _ => apply p_interval_prog in E
         end.
  all: use_prog; cbn [List.length] in *; lia.
Qed.
Hint Resolve p_term_prog : prog.

Lemma binloop_prog (operand : parser ptree) isop : progresses operand -> forall fuel left, nonincr (binloop operand isop fuel left).
Proof.
  intros Ho. induction fuel as [|f IH]; intros left ts a ts' H; [discriminate H|].
  cbn [binloop] in H. pinv H; subst.
  all: repeat match goal with E : binloop _ _ _ _ _ = POk _ |- _ => apply IH in E end.
  all: repeat match goal with E : _ _ = POk _ |- _ => apply Ho in E end.
  all: cbn [List.length] in *; lia.
Qed.
Lemma binlevel_prog (operand : parser ptree) isop : progresses operand -> progresses (binlevel operand isop).
Proof.
  intros Ho ts a ts' H. unfold binlevel in H. pinv H.
  match goal with E : binloop _ _ _ _ _ = POk _ |- _ => apply (binloop_prog _ _ Ho) in E end.
  match goal with E : _ _ = POk _ |- _ => apply Ho in E end. lia.
Qed.
Lemma p_factor_prog : progresses (p_factor pe).
Proof. apply binlevel_prog, p_term_prog. Qed.
Lemma p_product_prog : progresses (p_product pe).
Proof. apply binlevel_prog, p_factor_prog. Qed.
Lemma p_sum_prog : progresses (p_sum pe).
Proof. apply binlevel_prog, p_product_prog. Qed.
Hint Resolve p_sum_prog : prog.
Lemma p_cmp_prog : progresses (p_cmp pe).
Proof. unfold p_cmp. prog. Qed.
Hint Resolve p_cmp_prog : prog.
Lemma p_expr_prog : progresses (p_expr pe).
Proof. unfold p_expr. prog. Qed.
Hint Resolve p_expr_prog : prog.
Lemma p_statement_prog : progresses (p_statement pe).
Proof. unfold p_statement. prog. Qed.
End Progress.

Lemma parse_expression_prog fuel : progresses (parse_expression fuel).
Proof.
  induction fuel as [|f IH]; intros ts a ts' H; [discriminate H|].
  cbn [parse_expression] in H. exact (p_expr_prog _ IH _ _ _ H).
Qed.

(* ------------------------------------------------------------------ the knot, parse_statements, parse_tokens *)
Lemma parse_expression_fix_is_source fuel : forall ts, parse_expression fuel ts = g_parse_expression_fix fuel ts.
Proof.
  induction fuel as [|f IH]; intros ts; [reflexivity|].
  cbn [parse_expression g_parse_expression_fix]. apply parse_expression_is_source. exact IH.
Qed.

Lemma parse_statements_is_source efuel (pe' : parser ptree) :
  (forall ts, parse_expression efuel ts = pe' ts) ->
  forall ts,
  match stmts_loop efuel (S (List.length ts)) ts with
  | POk l => POk (PStmts l, []) | PErr k => PErr k | PFuel => PFuel
  end = g_parse_statements pe' ts.
Proof.
  intros Hpe ts. unfold g_parse_statements.
  match goal with |- context [g_while _ ?c ?b _ _] =>
    assert (L : forall fuel acc ts, List.length ts < fuel ->
                g_while fuel c b acc ts
                = match stmts_loop efuel fuel ts with
                  | POk l => POk (acc ++ l, []) | PErr k => PErr k | PFuel => PFuel
                  end) end.
  { induction fuel as [|f IH]; intros acc ts0 Hf; [inversion Hf|].
    loop_step W. cbn [stmts_loop]. go.
    destruct ts0 as [|t0 ts0]; ev; fin.
    rewrite <- (parse_statement_is_source _ _ Hpe).
    destruct (p_statement (parse_expression efuel) (t0 :: ts0)) as [[s ts1]| |] eqn:E; ev; fin.
    apply (p_statement_prog _ (parse_expression_prog efuel)) in E. cbn [List.length] in *.
    go. destruct ts1 as [|t1 ts1]; ev.
    - rewrite IH by (cbn [List.length]; lia). destruct f as [|f]; [lia|]. cbn [stmts_loop]. fin.
    - destruct t1; evb; ev; fin.
      rewrite IH by (cbn [List.length] in *; lia).
      destruct (stmts_loop efuel f ts1); ev; fin. }
  cbn zeta. rewrite L by lia. destruct (stmts_loop efuel (S (List.length ts)) ts); reflexivity.
Qed.

Theorem parse_tokens_is_source ts : parse_idx ts = g_parse_tokens ts.
Proof.
  unfold parse_idx, parse_with, g_parse_tokens.
  rewrite <- (parse_statements_is_source (List.length ts) _ (parse_expression_fix_is_source (List.length ts))).
  destruct (stmts_loop (List.length ts) (S (List.length ts)) ts); reflexivity.
Qed.

(* the model's [parse] (the object of the theorems of Properties/C02.v) in terms of the generated parse_tokens *)
Corollary parse_is_source ts :
  parse ts = match g_parse_tokens ts with
             | POk t => Ok t | PErr _ => Raise ParsingError | PFuel => Raise OutOfFuel
             end.
Proof. unfold parse. rewrite parse_tokens_is_source. reflexivity. Qed.

Print Assumptions check_type_src.
Print Assumptions next_are_src.
Print Assumptions next_is_src.
Print Assumptions next_is_one_of_src.
Print Assumptions empty_src.
Print Assumptions read_any_src.
Print Assumptions read_src.
Print Assumptions funcall_node_is_source.
Print Assumptions quantity_node_is_source.
Print Assumptions unit_convert_node_is_source.
Print Assumptions make_array_node_is_source.
Print Assumptions FORWARD_OPS_is_source.
Print Assumptions BACKWARD_OPS_is_source.
Print Assumptions flip_is_source.
Print Assumptions make_comparison_node_is_source.
Print Assumptions parse_integer_is_source.
Print Assumptions parse_units_is_source.
Print Assumptions parse_unit_signature_is_source.
Print Assumptions parse_variable_is_source.
Print Assumptions parse_number_is_source.
Print Assumptions parse_string_is_source.
Print Assumptions parse_instant_is_source.
Print Assumptions parse_positional_args_is_source.
Print Assumptions parse_keyword_args_is_source.
Print Assumptions parse_args_is_source.
Print Assumptions parse_function_is_source.
Print Assumptions parse_unsigned_term_without_factorial_is_source.
Print Assumptions parse_unsigned_term_is_source.
Print Assumptions parse_unitless_term_is_source.
Print Assumptions parse_maybe_quantity_is_source.
Print Assumptions parse_maybe_range_is_source.
Print Assumptions parse_clause_is_source.
Print Assumptions parse_array_is_source.
Print Assumptions parse_interval_is_source.
Print Assumptions parse_term_is_source.
Print Assumptions parse_binary_op_is_source.
Print Assumptions parse_factor_is_source.
Print Assumptions parse_product_is_source.
Print Assumptions parse_sum_is_source.
Print Assumptions parse_comparison_is_source.
Print Assumptions parse_unit_convert_is_source.
Print Assumptions parse_expression_is_source.
Print Assumptions parse_assignment_is_source.
Print Assumptions parse_statement_is_source.
Print Assumptions parse_expression_fix_is_source.
Print Assumptions parse_statements_is_source.
Print Assumptions parse_tokens_is_source.
Print Assumptions parse_is_source.
