(* Facts about the regenerated unit registry (Gen/GenUnits.v) and the hand-written reference
   table (Proofs/UnitSpec.v), re-proved by computation on every run.  A change to a unit, a
   prefix or a spelling in /repo's units.py changes Gen/GenUnits.v and one of these stops
   checking. *)
From Ka Require Import Model.Units Proofs.UnitSpec.

Lemma registry_wf_true : registry_wf live = true.
Proof. vm_compute. reflexivity. Qed.

Lemma three_spellings_true : three_spellings_ok live = true.
Proof. vm_compute. reflexivity. Qed.

Lemma prefixes_true : prefixes_ok live = true.
Proof. vm_compute. reflexivity. Qed.

Lemma offset_refused_true : offset_refused_ok live = true.
Proof. vm_compute. reflexivity. Qed.

Lemma has_offset_unit_true : has_offset_unit live = true.
Proof. vm_compute. reflexivity. Qed.

Lemma base_units_true : base_units_ok = true.
Proof. vm_compute. reflexivity. Qed.

Lemma dimensions_true : dimensions_ok unit_spec live = true.
Proof. vm_compute. reflexivity. Qed.

Lemma sizes_true : sizes_ok unit_spec live = true.
Proof. vm_compute. reflexivity. Qed.

Lemma offsets_true : offsets_ok unit_spec live = true.
Proof. vm_compute. reflexivity. Qed.

Lemma ratios_true : ratios_ok live tol12 definitional_ratios = true.
Proof. vm_compute. reflexivity. Qed.

Lemma ratio_dims_true : forallb (ratio_dims_ok live) (definitional_ratios ++ rounded_ratios) = true.
Proof. vm_compute. reflexivity. Qed.

Lemma rounded_ratios_true : forallb (ratio_within live (2 # 100)) rounded_ratios = true.
Proof. vm_compute. reflexivity. Qed.

Lemma case_true : case_ok live = true.
Proof. vm_compute. reflexivity. Qed.

Lemma case_variants_true : forallb (distinct_reading live) case_variants = true.
Proof. vm_compute. reflexivity. Qed.
