(* EvalSrcFacts.v — the hand-written evaluator models ARE the source's control logic.
   Gen/GenEvalSrc.v is regenerated on every run from the Python AST of ka/eval.py, the array functions of
   ka/functions.py and the shape of interpret.execute (harness/trans_eval.py); here the definitions of
   Model/Arrays.v (C12), Model/Session.v (C14) and Model/Exec.v (C06) are proved equal to the generated ones.
   A change of evaluation order, of a comparison, of a check's place or exception class, of what a loop carries,
   breaks one of these lemmas (or leaves GenEvalSrc without the definition: fail closed). *)
From Coq Require Import String List ZArith QArith Bool Lia Arith.
From Ka Require Model.Session Model.Exec.
From Ka Require Import Model.Prelude Model.Num Model.Qty Model.Arrays Gen.GenEvalSrc.
Import ListNotations.
Local Open Scope Z_scope.

(* ------------------------------------------------------------------------- *)
(* the fixed combinators of the construct mapping *)
Lemma bind_ret {A} (r : res A) : (do x <- r; Ok x) = r.
Proof. destruct r; reflexivity. Qed.

Lemma py_len_nil {A} : py_len (@nil A) = 0.
Proof. reflexivity. Qed.
Lemma py_len_cons_nz {A} (x : A) r : (py_len (x :: r) =? 0) = false.
Proof. unfold py_len. apply Z.eqb_neq. cbn [List.length]. lia. Qed.

Lemma py_index_nat {A} (l : list A) (k : nat) :
  py_index l (Z.of_nat k) = match nth_error l k with Some a => Ok a | None => Raise IndexError end.
Proof.
  unfold py_index, py_len.
  destruct (Z.ltb_spec (Z.of_nat k) 0) as [H|_]; [lia|].
  destruct (Z.ltb_spec (Z.of_nat k) 0) as [H|_]; [lia|]. cbn [orb].
  rewrite Nat2Z.id.
  destruct (Z.leb_spec (Z.of_nat (List.length l)) (Z.of_nat k)) as [H|H].
  - assert (Hn : nth_error l k = None) by (apply nth_error_None; lia). rewrite Hn. reflexivity.
  - reflexivity.
Qed.
Lemma py_index_0 {A} (x : A) r : py_index (x :: r) 0 = Ok x.
Proof. exact (py_index_nat (x :: r) 0). Qed.
Lemma py_index_nonneg {A} (l : list A) (i : Z) : 0 <= i ->
  py_index l i = match nth_error l (Z.to_nat i) with Some a => Ok a | None => Raise IndexError end.
Proof. intros H. rewrite <- (Z2Nat.id i H) at 1. apply py_index_nat. Qed.
Lemma py_index_last {A} (l : list A) (x : A) : py_index (l ++ [x]) (-1) = Ok x.
Proof.
  unfold py_index, py_len. rewrite app_length. cbn [List.length Z.ltb Z.compare].
  replace (-1 + Z.of_nat (List.length l + 1)) with (Z.of_nat (List.length l)) by lia.
  destruct (Z.ltb_spec (Z.of_nat (List.length l)) 0) as [H|_]; [lia|].
  destruct (Z.leb_spec (Z.of_nat (List.length l + 1)) (Z.of_nat (List.length l))) as [H|_]; [lia|].
  cbn [orb]. rewrite Nat2Z.id, nth_error_app2, Nat.sub_diag by lia. reflexivity.
Qed.

Lemma py_range_nil a b : b <= a -> py_range a b = [].
Proof. intros H. unfold py_range. replace (Z.to_nat (b - a)) with O by lia. reflexivity. Qed.
Lemma py_range_cons a b : a < b -> py_range a b = a :: py_range (a + 1) b.
Proof.
  intros H. unfold py_range. replace (Z.to_nat (b - a)) with (S (Z.to_nat (b - (a + 1)))) by lia.
  cbn [seq map]. f_equal; [lia|]. rewrite <- seq_shift, map_map. apply map_ext. intros k. lia.
Qed.

Lemma forR_ext {St X} (b1 b2 : X -> St -> res (bool * St)) l :
  (forall x s, b1 x s = b2 x s) -> forall s, forR b1 l s = forR b2 l s.
Proof.
  intros H. induction l as [|x r IH]; intros s; cbn [forR]; [reflexivity|].
  rewrite H. destruct (b2 x s) as [[b s']|e]; cbn [bind fst snd]; [|reflexivity].
  destruct b; [reflexivity|apply IH].
Qed.
(* a loop without break is a monadic left fold *)
Lemma forR_fold {St X} (f : St -> X -> res St) l : forall s,
  forR (fun x s => do t <- f s x; Ok (false, t)) l s = foldM f l s.
Proof.
  induction l as [|x r IH]; intros s; cbn [forR foldM]; [reflexivity|].
  destruct (f s x) as [t|e]; cbn [bind fst snd]; [apply IH|reflexivity].
Qed.
(* the index loop  for i in range(k, len(l)): .. l[i] ..  is the fold over the k-th tail *)
Lemma forR_index_fold {A St} (f : St -> A -> res St) (l : list A) : forall n k s,
  (n = List.length l - k)%nat -> (k <= List.length l)%nat ->
  forR (fun i s => do t2 <- py_index l i; do t3 <- f s t2; Ok (false, t3)) (py_range (Z.of_nat k) (py_len l)) s
  = foldM f (skipn k l) s.
Proof.
  induction n as [|n IH]; intros k s Hn Hk.
  - rewrite py_range_nil by (unfold py_len; lia).
    rewrite skipn_all2 by lia. reflexivity.
  - rewrite py_range_cons by (unfold py_len; lia). cbn [forR].
    rewrite py_index_nat.
    destruct (nth_error l k) as [a|] eqn:Ha.
    2:{ apply nth_error_None in Ha. lia. }
    assert (Hs : skipn k l = a :: skipn (S k) l).
    { clear - Ha. revert k Ha. induction l as [|y r IHl]; intros [|k] Ha; cbn in *; try discriminate.
      - congruence.
      - apply IHl. exact Ha. }
    rewrite Hs. cbn [bind foldM].
    destruct (f s a) as [t|e]; cbn [bind fst snd]; [|reflexivity].
    replace (Z.of_nat k + 1) with (Z.of_nat (S k)) by lia. apply IH; lia.
Qed.

Lemma foldM_ext {A B} (f g : A -> B -> res A) l : (forall a b, f a b = g a b) -> forall a, foldM f l a = foldM g l a.
Proof.
  intros H. induction l as [|x r IH]; intros a; cbn [foldM]; [reflexivity|].
  rewrite H. destruct (g a x); [apply IH|reflexivity].
Qed.
Lemma insR_ext {X} (c1 c2 : X -> X -> res Z) x l : (forall a b, c1 a b = c2 a b) -> insR c1 x l = insR c2 x l.
Proof.
  intros H. induction l as [|y r IH]; cbn [insR]; [reflexivity|].
  rewrite H, IH. reflexivity.
Qed.

(* ------------------------------------------------------------------------- *)
(* ka/functions.py: the array functions (Model/Arrays.v, Section Elems) *)
Section Fn.
Variable ndims : nat.

Ltac names := unfold dvalue2, dnum2; cbn [String.eqb Ascii.eqb Bool.eqb].

Lemma array_prod_is_source l : array_prod ndims l = g_array_prod ndims l.
Proof.
  unfold array_prod, g_array_prod. rewrite bind_ret.
  erewrite forR_ext; [symmetry; apply (forR_fold (fun acc e => v_binop ndims QMul e acc))|].
  intros x s. reflexivity.
Qed.

Lemma array_min_is_source l : array_min ndims l = g_array_min ndims l.
Proof.
  unfold array_min, g_array_min. destruct l as [|x r]; [reflexivity|].
  rewrite py_len_cons_nz, py_index_0. cbn [bind]. rewrite bind_ret.
  erewrite forR_ext; [symmetry; apply (forR_fold (min_step ndims))|].
  intros e s. names. unfold min_step. destruct (v_cmp ndims QLt e s) as [c|]; cbn [bind]; [|reflexivity].
  destruct (truthy c); reflexivity.
Qed.

Lemma array_max_is_source l : array_max ndims l = g_array_max ndims l.
Proof.
  unfold array_max, g_array_max. destruct l as [|x r]; [reflexivity|].
  rewrite py_len_cons_nz, py_index_0. cbn [bind]. rewrite bind_ret.
  erewrite forR_ext; [symmetry; apply (forR_fold (max_step ndims))|].
  intros e s. names. unfold max_step. destruct (v_cmp ndims QLt s e) as [c|]; cbn [bind]; [|reflexivity].
  destruct (truthy c); reflexivity.
Qed.

Lemma array_sum_is_source l : array_sum ndims l = g_array_sum ndims l.
Proof.
  unfold array_sum, g_array_sum. destruct l as [|x r]; [reflexivity|].
  rewrite py_len_cons_nz, py_index_0. cbn [bind]. rewrite bind_ret.
  change 1 with (Z.of_nat 1).
  erewrite forR_ext; [rewrite (forR_index_fold (fun acc e => v_binop ndims QAdd acc e) (x :: r) (List.length r) 1);
                      [reflexivity|cbn [List.length]; lia|cbn [List.length]; lia]|].
  intros i s. reflexivity.
Qed.

Lemma array_size_is_source l : array_size l = g_array_size l.
Proof. reflexivity. Qed.

Lemma array_mean_is_source l : array_mean ndims l = g_array_mean ndims l.
Proof.
  unfold array_mean, g_array_mean. destruct l as [|x r]; [reflexivity|].
  rewrite py_len_cons_nz, <- array_sum_is_source. names.
  destruct (array_sum ndims (x :: r)); cbn [bind]; [rewrite bind_ret; reflexivity|reflexivity].
Qed.

Lemma in_array_is_source x l : in_array ndims x l = g_in_array ndims x l.
Proof.
  unfold g_in_array. names. induction l as [|e r IH]; [reflexivity|].
  cbn [in_array anyR]. destruct (v_cmp ndims QEq x e) as [c|]; cbn [bind]; [|reflexivity].
  destruct (truthy c); cbn [bind]; [reflexivity|exact IH].
Qed.

Lemma ka_cmp_is_source x y : ka_cmp ndims x y = g_ka_cmp ndims x y.
Proof.
  unfold ka_cmp, g_ka_cmp. names.
  destruct (v_cmp ndims QLt x y) as [c|]; cbn [bind]; [|reflexivity].
  destruct (truthy c); [reflexivity|].
  destruct (v_cmp ndims QEq x y) as [c2|]; cbn [bind]; [|reflexivity].
  destruct (truthy c2); reflexivity.
Qed.

Lemma ins_is_insR x l : ins ndims x l = insR (ka_cmp ndims) x l.
Proof.
  induction l as [|y r IH]; cbn [ins insR]; [reflexivity|].
  destruct (ka_cmp ndims x y) as [c|]; cbn [bind]; [|reflexivity].
  destruct (c <? 0); [reflexivity|]. rewrite IH. destruct (insR (ka_cmp ndims) x r); reflexivity.
Qed.
Lemma ka_sort_is_sortedR l : ka_sort ndims l = sortedR (g_ka_cmp ndims) l.
Proof.
  unfold ka_sort, sortedR. apply foldM_ext. intros acc x.
  rewrite ins_is_insR. apply insR_ext. exact ka_cmp_is_source.
Qed.

Lemma even_mod2 n : ((Z.of_nat n mod 2) =? 0) = Nat.even n.
Proof.
  destruct (Nat.even n) eqn:He.
  - apply Nat.even_spec in He. destruct He as [k ->]. apply Z.eqb_eq.
    rewrite Nat2Z.inj_mul, Z.mul_comm. apply Z_mod_mult.
  - apply Z.eqb_neq. assert (Ho : Nat.odd n = true) by (rewrite <- Nat.negb_even, He; reflexivity).
    apply Nat.odd_spec in Ho. destruct Ho as [k ->].
    replace (Z.of_nat (2 * k + 1)) with (1 + Z.of_nat k * 2) by lia. rewrite Z_mod_plus_full. discriminate.
Qed.
Lemma half_div2 n : Z.of_nat n / 2 = Z.of_nat (Nat.div2 n).
Proof.
  rewrite Nat.div2_div. change 2 with (Z.of_nat 2). symmetry. apply Nat2Z.inj_div.
Qed.

Lemma array_median_is_source l : array_median ndims l = g_array_median ndims l.
Proof.
  unfold array_median, g_array_median. destruct l as [|x r]; [reflexivity|].
  rewrite py_len_cons_nz, <- ka_sort_is_sortedR. names.
  destruct (ka_sort ndims (x :: r)) as [sl|]; cbn [bind]; [|reflexivity].
  unfold py_len. rewrite even_mod2, half_div2.
  set (n := List.length sl). rewrite py_index_nat.
  destruct (Nat.even n) eqn:He.
  - destruct (Nat.div2 n) as [|h] eqn:Hh.
    + (* n even and n/2 = 0: the sorted list is empty *)
      assert (Hn : n = O).
      { apply Nat.even_spec in He. destruct He as [k Hk]. rewrite Hk, Nat.div2_double in Hh. lia. }
      subst n. destruct sl; [reflexivity|discriminate].
    + replace (Z.of_nat (S h) - 1) with (Z.of_nat h) by lia. rewrite py_index_nat.
      replace (S h - 1)%nat with h by lia.
      destruct (nth_error sl h) as [a|]; cbn [bind]; [|reflexivity].
      destruct (nth_error sl (S h)) as [b|]; cbn [bind]; [|reflexivity].
      destruct (v_binop ndims QAdd a b); cbn [bind]; [rewrite bind_ret; reflexivity|reflexivity].
  - destruct (nth_error sl (Nat.div2 n)); reflexivity.
Qed.

(* ---- ka_range: guards in source order, then the while loop *)
Definition res_map {A B} (g : A -> B) (r : res A) : res B := match r with Ok a => Ok (g a) | Raise e => Raise e end.

Lemma while_range (body : list num * num -> res (bool * (list num * num))) hi step :
  (forall acc curr, body (acc, curr) =
     match n_le curr hi with
     | Raise x => Raise x
     | Ok c => if num_true c
               then match n_add curr step with Raise x => Raise x | Ok nxt => Ok (false, (acc ++ [curr], nxt)) end
               else Ok (true, (acc, curr))
     end) ->
  forall f acc curr, res_map fst (whileR f body (acc, curr)) = res_map (app acc) (range_loop f curr hi step).
Proof.
  intros Hb. induction f as [|f IH]; intros acc curr; cbn [whileR range_loop]; [reflexivity|].
  rewrite Hb. destruct (n_le curr hi) as [c|]; cbn [bind res_map]; [|reflexivity].
  destruct (num_true c); cbn [bind fst snd res_map].
  - destruct (n_add curr step) as [nxt|]; cbn [bind fst snd res_map]; [|reflexivity].
    rewrite IH. destruct (range_loop f nxt hi step); cbn [res_map]; [|reflexivity].
    rewrite <- app_assoc. reflexivity.
  - rewrite app_nil_r. reflexivity.
Qed.

(* the fuel of the source's while loop is the model's range_fuel of the three arguments *)
Definition ka_range_fuel (snap : num * num * num * list num * num) : nat :=
  let '(lo, hi, step, _, _) := snap in range_fuel lo hi step.

Lemma ka_range_is_source lo hi step : ka_range lo hi step = g_ka_range ka_range_fuel lo hi step.
Proof.
  unfold ka_range, g_ka_range. names.
  destruct (n_le lo hi) as [c|]; cbn [bind]; [|reflexivity].
  destruct (negb (num_true c)); [reflexivity|].
  destruct (n_lt (NInt 0) step) as [c2|]; cbn [bind]; [|reflexivity].
  destruct (negb (num_true c2)); [reflexivity|].
  cbn [ka_range_fuel].
  match goal with |- _ = bind (whileR _ ?b _) _ =>
    assert (Hb : forall acc curr, b (acc, curr) =
      match n_le curr hi with
      | Raise x => Raise x
      | Ok c => if num_true c
                then match n_add curr step with Raise x => Raise x | Ok nxt => Ok (false, (acc ++ [curr], nxt)) end
                else Ok (true, (acc, curr))
      end);
    [ intros acc curr; cbv beta iota; destruct (n_le curr hi) as [c3|]; cbn [bind]; [|reflexivity];
      destruct (num_true c3); cbn [negb]; [|reflexivity];
      destruct (n_add curr step); reflexivity
    | pose proof (while_range b hi step Hb (range_fuel lo hi step) [] lo) as HW ]
  end.
  cbn [app] in HW.
  match goal with |- _ = bind ?w _ => destruct w as [[r c4]|e] end;
    destruct (range_loop (range_fuel lo hi step) lo hi step) as [rest|e2]; cbn [res_map fst bind] in *; congruence.
Qed.

(* the integer range: Array(list(range(lo, hi+1))) *)
Lemma int_range_is_source lo hi : Ok (int_range lo hi) = g_range_lambda lo hi.
Proof.
  unfold g_range_lambda, int_range, py_range. f_equal.
  replace (hi + 1 - lo) with (hi + 1 - lo) by reflexivity.
  generalize (Z.to_nat (hi + 1 - lo)) as n. intros n. revert lo.
  induction n as [|n IH]; intros lo; cbn [upto seq map]; [reflexivity|].
  f_equal; [lia|]. rewrite IH, <- seq_shift, map_map. apply map_ext. intros k. lia.
Qed.

(* the registrations: which function answers which name; run_agg is dispatch on one Array argument *)
Lemma array_registry_is_source :
  g_array_registry = [
    ("prod", ["Array"], "array_prod"); ("sum", ["Array"], "array_sum"); ("mean", ["Array"], "array_mean");
    ("median", ["Array"], "array_median"); ("size", ["Array"], "array_size"); ("max", ["Array"], "array_max");
    ("min", ["Array"], "array_min"); ("in", ["Any"; "Array"], "in_array");
    ("range", ["Integral"; "Integral"], "<lambda>"); ("range", ["Number"; "Number"; "Number"], "ka_range")]%string.
Proof. reflexivity. Qed.

Definition agg_name (f : agg) : string :=
  match f with ASum => "sum" | AProd => "prod" | AMean => "mean" | AMedian => "median" | AMin => "min" | AMax => "max"
             | ASize => "size" end%string.
Lemma run_agg_is_source f l : run_agg ndims f l = g_run_agg ndims (agg_name f) l.
Proof.
  destruct f; unfold g_run_agg, run_agg, agg_name; cbn [String.eqb Ascii.eqb Bool.eqb].
  - apply array_sum_is_source.
  - apply array_prod_is_source.
  - apply array_mean_is_source.
  - apply array_median_is_source.
  - apply array_min_is_source.
  - apply array_max_is_source.
  - apply array_size_is_source.
Qed.

End Fn.

(* ------------------------------------------------------------------------- *)
(* the state monad of the construct mapping: pointwise equality and congruences *)
Definition eqM {E A} (m1 m2 : M E A) : Prop := forall e, m1 e = m2 e.
Infix "=M" := eqM (at level 70).

Lemma eqM_refl {E A} (m : M E A) : m =M m. Proof. intros e. reflexivity. Qed.
Lemma eqM_trans {E A} (a b c : M E A) : a =M b -> b =M c -> a =M c.
Proof. intros H1 H2 e. rewrite H1. apply H2. Qed.
Lemma eqM_sym {E A} (a b : M E A) : a =M b -> b =M a.
Proof. intros H e. symmetry. apply H. Qed.

Lemma bindM_ext {E A B} (m1 m2 : M E A) (f g : A -> M E B) :
  m1 =M m2 -> (forall a, f a =M g a) -> bindM m1 f =M bindM m2 g.
Proof. intros Hm Hf e. unfold bindM. rewrite Hm. destruct (m2 e) as [[a|x] e1]; [apply Hf|reflexivity]. Qed.
Lemma bindM_app {E A B} (m : M E A) (f : A -> M E B) e :
  bindM m f e = match m e with (Ok a, e1) => f a e1 | (Raise x, e1) => (Raise x, e1) end.
Proof. reflexivity. Qed.
Lemma bindM_retM {E A} (m : M E A) : bindM m (fun x => retM x) =M m.
Proof. intros e. unfold bindM, retM. destruct (m e) as [[a|x] e1]; reflexivity. Qed.
Lemma bindM_ret_l {E A B} (a : A) (f : A -> M E B) : bindM (retM a) f =M f a.
Proof. intros e. reflexivity. Qed.
Lemma bindM_assoc {E A B C} (m : M E A) (f : A -> M E B) (g : B -> M E C) :
  bindM (bindM m f) g =M bindM m (fun a => bindM (f a) g).
Proof. intros e. unfold bindM. destruct (m e) as [[a|x] e1]; reflexivity. Qed.
Lemma bindM_lift_ok {E A B} (a : A) (f : A -> M E B) : bindM (liftM (Ok a)) f =M f a.
Proof. intros e. reflexivity. Qed.
Lemma bindM_lift_raise {E A B} x (f : A -> M E B) : bindM (liftM (Raise x)) f =M raiseM x.
Proof. intros e. reflexivity. Qed.

Lemma forM_ext {E St X} (b1 b2 : X -> St -> M E (bool * St)) l :
  (forall x s, b1 x s =M b2 x s) -> forall s, forM b1 l s =M forM b2 l s.
Proof.
  intros H. induction l as [|x r IH]; intros s; cbn [forM]; [apply eqM_refl|].
  apply bindM_ext; [apply H|]. intros [b s']. cbn [fst snd]. destruct b; [apply eqM_refl|apply IH].
Qed.
Lemma mapM_ext {E X Y} (f g : X -> M E Y) l : (forall x, f x =M g x) -> mapM f l =M mapM g l.
Proof.
  intros H. induction l as [|x r IH]; cbn [mapM]; [apply eqM_refl|].
  apply bindM_ext; [apply H|]. intros y. apply bindM_ext; [apply IH|]. intros ys. apply eqM_refl.
Qed.
Lemma whileM_ext {E St} (b1 b2 : St -> M E (bool * St)) :
  (forall s, b1 s =M b2 s) -> forall f s, whileM f b1 s =M whileM f b2 s.
Proof.
  intros H. induction f as [|f IH]; intros s; cbn [whileM]; [apply eqM_refl|].
  apply bindM_ext; [apply H|]. intros [b s']. cbn [fst snd]. destruct b; [apply eqM_refl|apply IH].
Qed.

(* [node.children[i] for i in range(a, b)] is the slice of the children *)
Lemma slice_skipn {A} (l : list A) : forall k a, nth_error l k = Some a -> skipn k l = a :: skipn (S k) l.
Proof.
  induction l as [|y r IHl]; intros [|k] a Ha; cbn in *; try discriminate; [congruence|]. apply IHl. exact Ha.
Qed.
Lemma mapM_index {E A} (l : list A) : forall n a (e : E), (a + n <= List.length l)%nat ->
  mapM (fun i => dos t <- liftM (py_index l i); retM t) (py_range (Z.of_nat a) (Z.of_nat (a + n))) e
  = (Ok (firstn n (skipn a l)), e).
Proof.
  induction n as [|n IH]; intros a e H.
  - rewrite py_range_nil by lia. reflexivity.
  - rewrite py_range_cons by lia. cbn [mapM]. unfold bindM at 1. unfold bindM at 1. unfold liftM at 1.
    rewrite py_index_nat.
    destruct (nth_error l a) as [x|] eqn:Hx.
    2:{ apply nth_error_None in Hx. lia. }
    unfold retM at 1. unfold bindM at 1.
    replace (Z.of_nat a + 1) with (Z.of_nat (S a)) by lia.
    replace (a + S n)%nat with (S a + n)%nat by lia.
    rewrite IH by lia. rewrite (slice_skipn l a x Hx). reflexivity.
Qed.

(* ------------------------------------------------------------------------- *)
(* ka/eval.py: the evaluator, for any environment / value / dispatch *)
Section Ev.
Variables (E V U : Type).
Variable vnone : V.
Variable getv : string -> E -> option V.
Variable setv : string -> V -> E -> E.
Variable dispatch : string -> list V -> list (string * V) -> res V.
Variable make_quantity : V -> U -> res V.
Variable convert_quantity : V -> U -> res V.
Variable mk_arr : list V -> V.
Variable as_arr : V -> option (list V).
Variable eq_int : V -> Z -> bool.
Notation pnode := (pnode V U).
Notation contents := (contents V as_arr).

(* ---- eval_comprehension in a normal form: the three loops as structural recursions *)
Section Comp.
Variable eval_node : pnode -> M E V.

(* for name, subarray in zip(names, subarrays): exhausted at the first subarray without element i *)
Fixpoint bind_atM (i : nat) (nas : list (string * V)) : M E bool :=
  match nas with
  | [] => retM false
  | (n, a) :: r => match nth_error (contents a) i with
                   | None => retM true
                   | Some v => dos _ <- write_var setv n v; bind_atM i r
                   end
  end.
(* every condition is evaluated; a result that is neither 1 nor 0 raises; a 0 clears the flag *)
Fixpoint condsM (cs : list pnode) (ok : bool) : M E bool :=
  match cs with
  | [] => retM ok
  | c :: r => dos v <- eval_node c;
              if eq_int v 1 || eq_int v 0 then condsM r (if eq_int v 0 then false else ok) else raiseM EvalError
  end.
Fixpoint loopM (fuel i : nat) (nas : list (string * V)) (conds : list pnode) (body : pnode) (out : list V)
  : M E (list V) :=
  match fuel with
  | O => raiseM OutOfFuel
  | S f => dos ex <- bind_atM i nas;
           if ex then retM out
           else dos ok <- condsM conds true;
                if ok then dos v <- eval_node body; loopM f (S i) nas conds body (out ++ [v])
                else loopM f (S i) nas conds body out
  end.
Definition comprehensionM (wf : list V -> nat) (body : pnode) (gens conds : list pnode) : M E V :=
  match gens with
  | [] => raiseM EvalError
  | _ => dos subs <- mapM eval_node gens;
         if existsb (fun s => negb (is_some (as_arr s))) subs then raiseM EvalError
         else dos out <- loopM (wf subs) 0 (combine (map (meta_name V U) gens) subs) conds body [];
              retM (mk_arr out)
  end.

Lemma bind_at_is_source (i : nat) nas :
  forM (fun '(name, subarray) (subarrays_exhausted : bool) =>
          if (py_len (contents subarray) <=? Z.of_nat i)
          then retM (true, true)
          else (dos t8 <- liftM (py_index (contents subarray) (Z.of_nat i));
                dos t9 <- g_set_variable E V setv name t8;
                retM (false, subarrays_exhausted))) nas false
  =M bind_atM i nas.
Proof.
  induction nas as [|[n a] r IH]; cbn [forM bind_atM]; [apply eqM_refl|].
  intros e. unfold bindM at 1. unfold py_len.
  destruct (Z.leb_spec (Z.of_nat (List.length (contents a))) (Z.of_nat i)) as [H|H].
  - assert (Hn : nth_error (contents a) i = None) by (apply nth_error_None; lia). rewrite Hn. reflexivity.
  - rewrite py_index_nat. destruct (nth_error (contents a) i) as [v|] eqn:Hv.
    2:{ apply nth_error_None in Hv. lia. }
    unfold g_set_variable. cbv [bindM liftM retM write_var fst snd]. apply IH.
Qed.

Lemma conds_is_source cs : forall ok,
  forM (fun condition (success : bool) =>
          dos t10 <- eval_node condition;
          dos t11 <- liftM (g_bool_like V eq_int t10);
          if (negb t11) then (raiseM EvalError)
          else (if (eq_int t10 0) then retM (false, false) else (retM (false, success)))) cs ok
  =M condsM cs ok.
Proof.
  induction cs as [|c r IH]; intros ok; cbn [forM condsM]; [apply eqM_refl|].
  intros e. rewrite !bindM_app.
  destruct (eval_node c e) as [[v|x] e1]; [|reflexivity].
  cbv zeta. unfold g_bool_like. rewrite !bindM_app. cbv [liftM].
  destruct (eq_int v 1 || eq_int v 0); cbn [negb]; [|reflexivity].
  destruct (eq_int v 0); cbv [retM fst snd]; apply IH.
Qed.

Lemma while_is_loopM (wbody : list V * Z -> M E (bool * (list V * Z))) nas conds body :
  (forall out i, wbody (out, Z.of_nat i) =M
     (dos ex <- bind_atM i nas;
      if ex then retM (true, (out, Z.of_nat i))
      else dos ok <- condsM conds true;
           if ok then dos v <- eval_node body; retM (false, (out ++ [v], Z.of_nat i + 1))
           else retM (false, (out, Z.of_nat i + 1)))) ->
  forall f i out, (dos st <- whileM f wbody (out, Z.of_nat i); retM (fst st)) =M loopM f i nas conds body out.
Proof.
  intros Hb. induction f as [|f IH]; intros i out; cbn [whileM loopM]; [intros e; reflexivity|].
  intros e. rewrite !bindM_app, Hb, !bindM_app.
  destruct (bind_atM i nas e) as [[ex|x] e1]; [|reflexivity].
  destruct ex; [reflexivity|]. rewrite !bindM_app.
  destruct (condsM conds true e1) as [[ok|x] e2]; [|reflexivity].
  destruct ok.
  - rewrite !bindM_app.
    destruct (eval_node body e2) as [[v|x] e3]; [|reflexivity].
    cbv [retM fst snd]. replace (Z.of_nat i + 1) with (Z.of_nat (S i)) by lia.
    specialize (IH (S i) (out ++ [v]) e3). rewrite bindM_app in IH. exact IH.
  - cbv [retM fst snd]. replace (Z.of_nat i + 1) with (Z.of_nat (S i)) by lia.
    specialize (IH (S i) out e2). rewrite bindM_app in IH. exact IH.
Qed.

Definition comp_node (mode : string) (pv : V) (pn : string) (ps : U) (lbl : string) (body : pnode)
           (gens conds : list pnode) (ec : bool) (mn : string) : pnode :=
  PNode V U mode pv pn ps lbl (body :: gens ++ conds) ec (Z.of_nat (List.length gens)) mn.

Lemma eval_comprehension_norm wf mode pv pn ps lbl body gens conds ec mn :
  let node := comp_node mode pv pn ps lbl body gens conds ec mn in
  g_eval_comprehension E V U setv mk_arr as_arr eq_int eval_node wf node
  =M comprehensionM
       (fun subs => wf (node, Z.of_nat (List.length gens),
                        py_len (body :: gens ++ conds) - Z.of_nat (List.length gens) - 1, body, gens,
                        map (meta_name V U) gens, subs, conds, 0, [])) body gens conds.
Proof.
  intros node e. unfold g_eval_comprehension, comprehensionM.
  cbn [node comp_node meta_num_assignments children]. cbv zeta.
  destruct gens as [|g0 gr] eqn:Hg; [reflexivity|]. rewrite <- Hg.
  assert (Hnz : (Z.of_nat (List.length gens) =? 0) = false) by (apply Z.eqb_neq; subst gens; cbn [List.length]; lia).
  rewrite Hnz. rewrite bindM_app. unfold liftM at 1. rewrite py_index_0.
  (* assignment_nodes = the generators *)
  rewrite bindM_app.
  change 1 with (Z.of_nat 1) at 1 2. rewrite <- Nat2Z.inj_add.
  rewrite (mapM_index (body :: gens ++ conds) (List.length gens) 1 e)
    by (cbn [List.length]; rewrite app_length; lia).
  cbn [skipn]. rewrite firstn_app, Nat.sub_diag, firstn_all. cbn [firstn]. rewrite app_nil_r.
  (* subarrays *)
  rewrite !bindM_app.
  rewrite (mapM_ext _ eval_node gens (fun x => bindM_retM (eval_node x)) e).
  destruct (mapM eval_node gens e) as [[subs|x] e1]; [|reflexivity].
  destruct (existsb (fun s => negb (is_some (as_arr s))) subs); [reflexivity|].
  (* condition_nodes = the rest of the children *)
  rewrite bindM_app.
  assert (Hlen : py_len (body :: gens ++ conds) = Z.of_nat ((1 + List.length gens) + List.length conds)).
  { unfold py_len. cbn [List.length]. rewrite app_length. lia. }
  rewrite Hlen at 1.
  replace (1 + Z.of_nat (List.length gens)) with (Z.of_nat (1 + List.length gens)) by lia.
  rewrite (mapM_index (body :: gens ++ conds) (List.length conds) (1 + List.length gens) e1)
    by (cbn [List.length]; rewrite app_length; lia).
  cbn [skipn plus]. rewrite skipn_app, skipn_all, Nat.sub_diag. cbn [skipn app]. rewrite firstn_all.
  (* the while loop *)
  change (fun child : pnode => meta_name V U child) with (meta_name V U).
  match goal with |- bindM (whileM ?f ?wb _) _ _ = _ =>
    assert (Hb : forall out i, wb (out, Z.of_nat i) =M
      (dos ex <- bind_atM i (combine (map (meta_name V U) gens) subs);
       if ex then retM (true, (out, Z.of_nat i))
       else dos ok <- condsM conds true;
            if ok then dos v <- eval_node body; retM (false, (out ++ [v], Z.of_nat i + 1))
            else retM (false, (out, Z.of_nat i + 1))));
    [ intros out i e2; cbv beta iota; rewrite !bindM_app;
      rewrite (bind_at_is_source i (combine (map (meta_name V U) gens) subs) e2);
      destruct (bind_atM i (combine (map (meta_name V U) gens) subs) e2) as [[ex|x] e3]; [|reflexivity];
      destruct ex; [reflexivity|]; rewrite !bindM_app;
      rewrite (conds_is_source conds true e3); reflexivity
    | pose proof (while_is_loopM wb _ conds body Hb f O [] e1) as HW ]
  end.
  rewrite !bindM_app. rewrite bindM_app in HW. change (Z.of_nat 0) with 0 in HW.
  match goal with |- match ?w with _ => _ end = _ => destruct w as [[[o j]|x] e2] end;
    cbv [retM fst] in HW; rewrite <- HW; reflexivity.
Qed.

(* ---- Model/Arrays.v eval_comprehension (which forgets the environment of a failed evaluation) *)
Definition drop {A} (p : res A * E) : res (A * E) :=
  match p with (Ok a, e) => Ok (a, e) | (Raise x, _) => Raise x end.
Definition ev_of (n : pnode) : E -> res (V * E) := fun e => drop (eval_node n e).
Definition blike_of (v : V) : option bool :=
  if eq_int v 1 then Some true else if eq_int v 0 then Some false else None.
Hypothesis eq_int_1_0 : forall v, eq_int v 1 = true -> eq_int v 0 = false.

Lemma eval_list_is_mapM gens : forall env,
  eval_list V E (map ev_of gens) env = drop (mapM eval_node gens env).
Proof.
  induction gens as [|g r IH]; intros env; cbn [map eval_list mapM]; [reflexivity|].
  rewrite bindM_app. unfold ev_of at 1. destruct (eval_node g env) as [[v|x] e1]; cbn [drop]; [|reflexivity].
  rewrite IH, bindM_app. destruct (mapM eval_node r e1) as [[vs|x] e2]; reflexivity.
Qed.
Lemma all_arrays_is_existsb vs :
  all_arrays V as_arr vs = if existsb (fun s => negb (is_some (as_arr s))) vs then None else Some (map contents vs).
Proof.
  induction vs as [|v r IH]; cbn [all_arrays existsb map]; [reflexivity|].
  unfold GenEvalSrc.contents at 1. rewrite IH. destruct (as_arr v); cbn [is_some negb orb]; [|reflexivity].
  destruct (existsb _ r); reflexivity.
Qed.
Lemma bind_at_is_bind_atM i names : forall subs env,
  bind_atM i (combine names subs) env
  = (Ok (snd (bind_at V E setv i names (map contents subs) env)), fst (bind_at V E setv i names (map contents subs) env)).
Proof.
  induction names as [|n ns IH]; intros subs env; [reflexivity|].
  destruct subs as [|a r]; [reflexivity|]. cbn [combine bind_atM map bind_at].
  destruct (nth_error (contents a) i) as [v|]; [|reflexivity].
  rewrite bindM_app. cbv [write_var]. apply IH.
Qed.
Lemma eval_conds_is_condsM cs : forall env ok,
  eval_conds V E blike_of (map ev_of cs) env ok = drop (condsM cs ok env).
Proof.
  induction cs as [|c r IH]; intros env ok; cbn [map eval_conds condsM]; [reflexivity|].
  rewrite bindM_app. unfold ev_of at 1. destruct (eval_node c env) as [[v|x] e1]; cbn [drop]; [|reflexivity].
  unfold blike_of. destruct (eq_int v 1) eqn:H1.
  - rewrite (eq_int_1_0 v H1). cbn [orb]. rewrite andb_true_r. apply IH.
  - destruct (eq_int v 0); cbn [orb]; [rewrite andb_false_r; apply IH|reflexivity].
Qed.
Lemma comp_loop_is_loopM names conds body subs : forall f i out env,
  drop (loopM f i (combine names subs) conds body out env)
  = match comp_loop V E setv blike_of f i names (map contents subs) (map ev_of conds) (ev_of body) env with
    | Ok (vs, ef) => Ok (out ++ vs, ef)
    | Raise x => Raise x
    end.
Proof.
  induction f as [|f IH]; intros i out env; cbn [loopM comp_loop]; [reflexivity|].
  rewrite bindM_app, bind_at_is_bind_atM.
  destruct (bind_at V E setv i names (map contents subs) env) as [env1 ex]. cbn [fst snd].
  destruct ex; [cbn [drop retM]; rewrite app_nil_r; reflexivity|].
  rewrite bindM_app, eval_conds_is_condsM.
  destruct (condsM conds true env1) as [[ok|x] e2]; cbn [drop]; [|reflexivity].
  destruct ok.
  - rewrite bindM_app. unfold ev_of at 1. destruct (eval_node body e2) as [[v|x] e3]; cbn [drop]; [|reflexivity].
    rewrite IH. destruct (comp_loop V E setv blike_of f (S i) names (map contents subs) (map ev_of conds) (ev_of body) e3)
      as [[vs ef]|x]; [rewrite <- app_assoc; reflexivity|reflexivity].
  - apply IH.
Qed.

(* the model's fuel: one more than the shortest generator *)
Definition comp_fuel (subs : list V) : nat := S (min_len V (map contents subs)).

Lemma eval_comprehension_is_comprehensionM body gens conds env :
  match eval_comprehension V E setv as_arr blike_of (ev_of body) (map (meta_name V U) gens)
          (map ev_of gens) (map ev_of conds) env with
  | Ok (vs, ef) => Ok (mk_arr vs, ef)
  | Raise x => Raise x
  end = drop (comprehensionM comp_fuel body gens conds env).
Proof.
  unfold eval_comprehension, comprehensionM. destruct gens as [|g0 gr] eqn:Hg; [reflexivity|]. rewrite <- Hg.
  assert (Hm : map (meta_name V U) gens <> []) by (subst gens; discriminate).
  destruct (map (meta_name V U) gens) as [|n0 nr] eqn:Hn; [contradiction|]. rewrite <- Hn.
  rewrite eval_list_is_mapM, bindM_app.
  destruct (mapM eval_node gens env) as [[subs|x] e1]; cbn [drop]; [|reflexivity].
  rewrite all_arrays_is_existsb.
  destruct (existsb (fun s => negb (is_some (as_arr s))) subs); [reflexivity|].
  rewrite bindM_app. unfold comp_fuel.
  pose proof (comp_loop_is_loopM (map (meta_name V U) gens) conds body subs
                (S (min_len V (map contents subs))) O [] e1) as HL.
  destruct (loopM (S (min_len V (map contents subs))) 0 (combine (map (meta_name V U) gens) subs) conds body [] e1)
    as [[o|x] e2]; cbv [retM]; cbn [drop] in HL |- *;
    destruct (comp_loop V E setv blike_of (S (min_len V (map contents subs))) 0 (map (meta_name V U) gens)
                (map contents subs) (map ev_of conds) (ev_of body) e1) as [[vs ef]|y]; cbn [app] in HL; congruence.
Qed.
End Comp.

(* ---- eval_node / eval_based_on_mode on the node shapes the parser builds (ka/parse.py) *)
Variable u0 : U.                       (* the value field of nodes that carry no unit signature *)
Notation PNode := (PNode V U).
Definition n_leaf (v : V) : pnode := PNode "leaf" v "" u0 "" [] true 0 "".
Definition n_var (x : string) : pnode := PNode "variable" vnone x u0 x [] true 0 "".
Definition n_call (f : string) (args : list pnode) : pnode := PNode "funcall" vnone f u0 f args true 0 "".
Definition n_assign (x : string) (a : pnode) : pnode := PNode "assignment" vnone x u0 "=" [a] true 0 "".
Definition n_stmts (l : list pnode) : pnode := PNode "statements" vnone "" u0 "" l true 0 "".
Definition n_qty (a : pnode) (u : U) : pnode := PNode "quantity" vnone "" u "" [a] true 0 "".
Definition n_conv (a : pnode) (u : U) : pnode := PNode "convert-unit" vnone "" u "" [a] true 0 "".
Definition n_arr (l : list pnode) : pnode := PNode "array" vnone "{...}" u0 "{...}" l true 0 "".
Definition n_comp (body : pnode) (gens conds : list pnode) : pnode :=
  comp_node "array-with-condition" vnone "{...}" u0 "{...}" body gens conds false "".
(* make_generator_node: array_expr.meta["name"] = name *)
Definition n_gen (name : string) (g : pnode) : pnode :=
  let '(GenEvalSrc.PNode _ _ m v s u l c ec k _) := g in PNode m v s u l c ec k name.

Notation g_node := (g_eval_node E V U vnone getv setv dispatch make_quantity convert_quantity mk_arr as_arr eq_int).
Notation g_bom := (g_eval_based_on_mode E V U vnone getv setv dispatch make_quantity convert_quantity mk_arr as_arr eq_int).
Notation g_comp := (g_eval_comprehension E V U setv mk_arr as_arr eq_int).

Lemma eval_node_step f wf node :
  g_node (S f) wf node
  =M (dos cv <- mapM (fun c => if eval_children V U node then g_node f wf c else retM vnone) (children V U node);
      g_bom (g_node f wf) wf node cv).
Proof.
  cbn [g_eval_node]. apply bindM_ext.
  - apply mapM_ext. intros c. destruct (eval_children V U node).
    + apply (eqM_trans _ _ _ (bindM_retM _)). apply bindM_retM.
    + apply bindM_retM.
  - intros cv. apply bindM_retM.
Qed.

Lemma get_variable_norm x e :
  g_get_variable E V getv x e = (match getv x e with Some v => Ok v | None => Raise EvalError end, e).
Proof. unfold g_get_variable. rewrite bindM_app. cbv [has_var]. destruct (getv x e) as [v|] eqn:Hv; cbn [is_some negb]; [|reflexivity].
  rewrite bindM_app. cbv [read_var]. rewrite Hv. reflexivity. Qed.
Lemma set_variable_norm x v e : g_set_variable E V setv x v e = (Ok v, setv x v e).
Proof. reflexivity. Qed.

Section Modes.
Variable en : pnode -> M E V.
Variable wf : pnode * Z * Z * pnode * list pnode * list string * list V * list pnode * Z * list V -> nat.

Ltac mode := unfold g_eval_based_on_mode; cbv [n_leaf n_var n_call n_assign n_stmts n_qty n_conv n_arr n_comp comp_node]; cbn [eval_mode String.eqb Ascii.eqb Bool.eqb]; cbv zeta.

Lemma bom_leaf v cv : g_bom en wf (n_leaf v) cv =M retM v.
Proof. intros e. reflexivity. Qed.
Lemma bom_var x cv e : g_bom en wf (n_var x) cv e = (match getv x e with Some v => Ok v | None => Raise EvalError end, e).
Proof. mode. cbn [pname]. rewrite bindM_app, get_variable_norm. destruct (getv x e); reflexivity. Qed.
Lemma bom_assign x a v e : g_bom en wf (n_assign x a) [v] e = (Ok v, setv x v e).
Proof. reflexivity. Qed.
Lemma bom_stmts_nil l e : g_bom en wf (n_stmts l) [] e = (Ok vnone, e).
Proof. reflexivity. Qed.
Lemma bom_stmts_last l cv v e : g_bom en wf (n_stmts l) (cv ++ [v]) e = (Ok v, e).
Proof.
  mode. cbn [pname]. rewrite bindM_app.
  assert (Hn : is_nil (cv ++ [v]) = false) by (destruct cv; reflexivity). rewrite Hn. cbn [negb].
  rewrite bindM_app. unfold liftM at 1. rewrite py_index_last. reflexivity.
Qed.
Lemma bom_qty a u v e : g_bom en wf (n_qty a u) [v] e = (make_quantity v u, e).
Proof. mode. rewrite bindM_app. cbv [liftM]. rewrite py_index_0, bindM_app. cbn [psig]. destruct (make_quantity v u); reflexivity. Qed.
Lemma bom_conv a u v e : g_bom en wf (n_conv a u) [v] e = (convert_quantity v u, e).
Proof. mode. rewrite bindM_app. cbv [liftM]. rewrite py_index_0, bindM_app. cbn [psig]. destruct (convert_quantity v u); reflexivity. Qed.
Lemma bom_arr l cv e : g_bom en wf (n_arr l) cv e = (Ok (mk_arr cv), e).
Proof. reflexivity. Qed.
Lemma bom_comp body gens conds cv : g_bom en wf (n_comp body gens conds) cv =M g_comp en wf (n_comp body gens conds).
Proof. mode. apply bindM_retM. Qed.

(* a call without keyword arguments: dispatch(name, all child values) *)
Definition no_kw (args : list pnode) : bool :=
  forallb (fun c => negb (String.eqb (eval_mode V U c) "keyword-arg")) args.
Lemma filter_all {A} (p : A -> bool) l : forallb p l = true -> filter p l = l.
Proof. induction l as [|x r IH]; cbn [forallb filter]; [reflexivity|]. destruct (p x); [intros H; rewrite IH by exact H; reflexivity|discriminate]. Qed.
Lemma bom_call f args cv e : no_kw args = true -> List.length cv = List.length args ->
  g_bom en wf (n_call f args) cv e = (dispatch f cv [], e).
Proof.
  intros Hk Hl. mode. rewrite bindM_app. unfold g_eval_funcall. cbn [children pname]. cbv zeta.
  rewrite (filter_all _ args Hk). unfold py_slice_to, py_slice_from, py_clip, py_len.
  destruct (Z.ltb_spec (Z.of_nat (List.length args)) 0) as [H|_]; [lia|].
  rewrite Nat2Z.id, <- Hl, firstn_all, skipn_all. rewrite Hl, skipn_all. cbn [combine map].
  cbv [liftM]. destruct (dispatch f cv []); reflexivity.
Qed.
End Modes.
End Ev.

(* ------------------------------------------------------------------------- *)
(* Model/Arrays.v eval_comprehension respects pointwise equality of its evaluators *)
Section CompExt.
Variables (V E : Type) (setv : string -> V -> E -> E) (as_arr : V -> option (list V)).
Variables (bl1 bl2 : V -> option bool).
Hypothesis Hbl : forall v, bl1 v = bl2 v.
Notation ev := (E -> res (V * E)).
Definition ev_eq (a b : ev) : Prop := forall e, a e = b e.

Lemma eval_list_ext (g1 g2 : list ev) : Forall2 ev_eq g1 g2 -> forall env, eval_list V E g1 env = eval_list V E g2 env.
Proof.
  induction 1 as [|a b r1 r2 Hab _ IH]; intros env; cbn [eval_list]; [reflexivity|].
  rewrite Hab. destruct (b env) as [[v e1]|]; [rewrite IH; reflexivity|reflexivity].
Qed.
Lemma eval_conds_ext (c1 c2 : list ev) : Forall2 ev_eq c1 c2 ->
  forall env ok, eval_conds V E bl1 c1 env ok = eval_conds V E bl2 c2 env ok.
Proof.
  induction 1 as [|a b r1 r2 Hab _ IH]; intros env ok; cbn [eval_conds]; [reflexivity|].
  rewrite Hab. destruct (b env) as [[v e1]|]; [|reflexivity]. rewrite Hbl. destruct (bl2 v); [apply IH|reflexivity].
Qed.
Lemma comp_loop_ext names arrs (c1 c2 : list ev) (b1 b2 : ev) : Forall2 ev_eq c1 c2 -> ev_eq b1 b2 ->
  forall f i env, comp_loop V E setv bl1 f i names arrs c1 b1 env = comp_loop V E setv bl2 f i names arrs c2 b2 env.
Proof.
  intros Hc Hb. induction f as [|f IH]; intros i env; cbn [comp_loop]; [reflexivity|].
  destruct (bind_at V E setv i names arrs env) as [env1 ex]. destruct ex; [reflexivity|].
  rewrite (eval_conds_ext c1 c2 Hc). destruct (eval_conds V E bl2 c2 env1 true) as [[ok e2]|]; [|reflexivity].
  destruct ok; [|apply IH]. rewrite Hb. destruct (b2 e2) as [[v e3]|]; [rewrite IH; reflexivity|reflexivity].
Qed.
Lemma eval_comprehension_ext (b1 b2 : ev) names (g1 g2 c1 c2 : list ev) :
  ev_eq b1 b2 -> Forall2 ev_eq g1 g2 -> Forall2 ev_eq c1 c2 ->
  forall env, eval_comprehension V E setv as_arr bl1 b1 names g1 c1 env
            = eval_comprehension V E setv as_arr bl2 b2 names g2 c2 env.
Proof.
  intros Hb Hg Hc env. unfold eval_comprehension. destruct names; [reflexivity|].
  rewrite (eval_list_ext g1 g2 Hg). destruct (eval_list V E g2 env) as [[vs e1]|]; [|reflexivity].
  destruct (all_arrays V as_arr vs); [|reflexivity]. apply comp_loop_ext; assumption.
Qed.
End CompExt.

(* ------------------------------------------------------------------------- *)
(* C12: Model/Arrays.v [eval] is the source's eval_node on the parse trees of its expressions *)
Section ArraysTie.
Variable ndims : nat.
Variable vnone : value.      (* what None is taken for: never produced on these trees, so any value will do *)
Local Open Scope string_scope.

Definition a_eq_int (v : value) (k : Z) : bool :=
  match v with VS (VN n) => Qeqb (toQ n) (inject_Z k) | _ => false end.
Definition a_make_quantity (v : value) (s : usig) : res value :=
  match v with VS q => lift_s (make_quantity ndims q s) | VA _ => Raise EvalError end.
Definition a_convert_quantity (v : value) (s : usig) : res value :=
  match v with
  | VS q => lift_s (convert_quantity ndims q s)
  | VA _ => match compose_units ndims s with Raise err => Raise err | Ok _ => Raise EvalError end
  end.

Definition qop_name (o : qop) : string := match o with QAdd => "+" | QSub => "-" | QMul => "*" | QDiv => "/" end.
Definition qcmp_name (c : qcmp) : string :=
  match c with QLt => "<" | QLe => "<=" | QEq => "==" | QNe => "!=" | QGt => ">" | QGe => ">=" end.
Definition binop_of (s : string) : option qop :=
  if String.eqb s "+" then Some QAdd else if String.eqb s "-" then Some QSub else
  if String.eqb s "*" then Some QMul else if String.eqb s "/" then Some QDiv else None.
Definition cmp_of (s : string) : option qcmp :=
  if String.eqb s "<" then Some QLt else if String.eqb s "<=" then Some QLe else
  if String.eqb s "==" then Some QEq else if String.eqb s "!=" then Some QNe else None.
Definition agg_of (s : string) : option agg :=
  if String.eqb s "sum" then Some ASum else if String.eqb s "prod" then Some AProd else
  if String.eqb s "mean" then Some AMean else if String.eqb s "median" then Some AMedian else
  if String.eqb s "min" then Some AMin else if String.eqb s "max" then Some AMax else
  if String.eqb s "size" then Some ASize else None.

(* Ka's dispatch on the names the model's expressions use, in the model's own terms *)
Definition a_dispatch (name : string) (args : list value) (kws : list (string * value)) : res value :=
  match kws with
  | _ :: _ => Raise Unmodelled
  | [] =>
    match binop_of name, cmp_of name, agg_of name with
    | Some o, _, _ => match args with [a; b] => v_binop ndims o a b | _ => Raise Unmodelled end
    | _, Some c, _ => match args with [a; b] => v_cmp ndims c a b | _ => Raise Unmodelled end
    | _, _, Some f =>
        match args with
        | [VA l] => run_agg ndims f l
        | [VS s] => match f, s with
                    | AMax, VN _ | AMin, VN _ => Ok (VS s)
                    | _, _ => Raise NoMatchingFunctionSignatureError
                    end
        | _ => match f with
               | AMax => vararg_ext ndims true args
               | AMin => vararg_ext ndims false args
               | _ => Raise Unmodelled
               end
        end
    | None, None, None =>
        if String.eqb name "!" then
          match args with
          | [v] => match as_int v with Some n => Ok (vint (Comb.fact_Z n)) | None => Raise Unmodelled end
          | _ => Raise Unmodelled
          end
        else if String.eqb name "C" then
          match args with
          | [a; b] => match as_int a, as_int b with
                      | Some n, Some k => Ok (VS (VN (Comb.choose_num n k)))
                      | _, _ => Raise Unmodelled
                      end
          | _ => Raise Unmodelled
          end
        else if String.eqb name "range" then
          match args with
          | [a; b] => match as_int a, as_int b with
                      | Some x, Some y => Ok (VA (map vint (int_range x y)))
                      | _, _ => Raise NoMatchingFunctionSignatureError
                      end
          | [a; b; c] => match as_num a, as_num b, as_num c with
                         | Some x, Some y, Some z =>
                             match ka_range x y z with
                             | Raise err => Raise err
                             | Ok l => Ok (VA (map (fun n => VS (VN n)) l))
                             end
                         | _, _, _ => Raise NoMatchingFunctionSignatureError
                         end
          | _ => Raise Unmodelled
          end
        else if String.eqb name "in" then
          match args with
          | [a; VA l] => in_array ndims a l
          | [_; VS _] => Raise NoMatchingFunctionSignatureError
          | _ => Raise Unmodelled
          end
        else Raise Unmodelled
    end
  end.

Definition u0 : usig := ([], []).
Notation pn := (pnode value usig).
Notation leaf := (n_leaf value usig u0).
Notation call := (n_call value usig vnone u0).

(* the parse tree of a model expression (ka/parse.py: funcall_node, quantity_node, make_array_node,
   make_array_with_condition_node + make_generator_node, parse_statements, parse_assignment) *)
Fixpoint embedA (e : expr) : pn :=
  match e with
  | ENum n => leaf (VS (VN n))
  | EFact n => call "!" [leaf (vint n)]
  | EChoose n k => call "C" [leaf (vint n); leaf (vint k)]
  | EVar x => n_var value usig vnone u0 x
  | ETag a s => n_qty value usig vnone (embedA a) s
  | EConv a s => n_conv value usig vnone (embedA a) s
  | EBin o a b => call (qop_name o) [embedA a; embedA b]
  | ECmp c a b => call (qcmp_name c) [embedA a; embedA b]
  | EArr l => n_arr value usig vnone u0 (map embedA l)
  | ERange a b => call "range" [embedA a; embedA b]
  | ERange3 a b c => call "range" [embedA a; embedA b; embedA c]
  | EAgg f a => call (agg_name f) [embedA a]
  | EVarargs is_max l => call (if is_max then "max" else "min") (map embedA l)
  | EIn a b => call "in" [embedA a; embedA b]
  | EComp body names gens conds =>
      n_comp value usig vnone u0 (embedA body)
        ((fix go (gs : list expr) (ns : list string) {struct gs} : list pn :=
            match gs, ns with
            | g :: gs', n :: ns' => n_gen value usig n (embedA g) :: go gs' ns'
            | _, _ => []
            end) gens names)
        (map embedA conds)
  | ESeq a b => n_stmts value usig vnone u0 [embedA a; embedA b]
  | EAssign x a => n_assign value usig vnone u0 x (embedA a)
  end.

(* the expressions for which the tree above is what the parser builds and the model's operator table is Ka's:
   no `>` / `>=` (the parser rewrites them to `<` / `<=` with the operands swapped), a vararg max/min has not
   exactly one argument (max(x) is the EAgg form), one name per generator *)
Fixpoint wfA (e : expr) : bool :=
  match e with
  | ENum _ | EFact _ | EChoose _ _ | EVar _ => true
  | ETag a _ | EConv a _ | EAgg _ a | EAssign _ a => wfA a
  | EBin _ a b | ERange a b | EIn a b | ESeq a b => wfA a && wfA b
  | ECmp c a b => match c with QGt | QGe => false | _ => wfA a && wfA b end
  | ERange3 a b c => wfA a && wfA b && wfA c
  | EArr l => forallb wfA l
  | EVarargs _ l => negb (Nat.eqb (List.length l) 1) && forallb wfA l
  | EComp body names gens conds =>
      Nat.eqb (List.length names) (List.length gens) && wfA body && forallb wfA gens && forallb wfA conds
  end.

Fixpoint edepth (e : expr) : nat :=
  match e with
  | ENum _ | EVar _ => 1
  | EFact _ | EChoose _ _ => 2
  | ETag a _ | EConv a _ | EAgg _ a | EAssign _ a => S (edepth a)
  | EBin _ a b | ECmp _ a b | ERange a b | EIn a b | ESeq a b => S (Nat.max (edepth a) (edepth b))
  | ERange3 a b c => S (Nat.max (edepth a) (Nat.max (edepth b) (edepth c)))
  | EArr l | EVarargs _ l => S (list_max (map edepth l))
  | EComp body _ gens conds => S (Nat.max (edepth body) (Nat.max (list_max (map edepth gens)) (list_max (map edepth conds))))
  end.

(* the fuel of the comprehension's while loop: the model's, a function of the evaluated generators only *)
Definition a_wf (snap : pn * Z * Z * pn * list pn * list string * list value * list pn * Z * list value) : nat :=
  let '(_, _, _, _, _, _, subs, _, _, _) := snap in comp_fuel value value_as_arr subs.

Notation a_node := (g_eval_node env value usig vnone lookup set_var a_dispatch a_make_quantity a_convert_quantity VA
                                value_as_arr a_eq_int).
Notation dropA := (drop env).

(* induction on expressions through their lists *)
Section ExprInd.
Variable P : expr -> Prop.
Hypothesis HNum : forall n, P (ENum n).
Hypothesis HFact : forall n, P (EFact n).
Hypothesis HChoose : forall n k, P (EChoose n k).
Hypothesis HVar : forall x, P (EVar x).
Hypothesis HTag : forall a s, P a -> P (ETag a s).
Hypothesis HConv : forall a s, P a -> P (EConv a s).
Hypothesis HBin : forall o a b, P a -> P b -> P (EBin o a b).
Hypothesis HCmp : forall c a b, P a -> P b -> P (ECmp c a b).
Hypothesis HArr : forall l, Forall P l -> P (EArr l).
Hypothesis HRange : forall a b, P a -> P b -> P (ERange a b).
Hypothesis HRange3 : forall a b c, P a -> P b -> P c -> P (ERange3 a b c).
Hypothesis HAgg : forall f a, P a -> P (EAgg f a).
Hypothesis HVarargs : forall m l, Forall P l -> P (EVarargs m l).
Hypothesis HIn : forall a b, P a -> P b -> P (EIn a b).
Hypothesis HComp : forall body names gens conds, P body -> Forall P gens -> Forall P conds -> P (EComp body names gens conds).
Hypothesis HSeq : forall a b, P a -> P b -> P (ESeq a b).
Hypothesis HAssign : forall x a, P a -> P (EAssign x a).
Fixpoint expr_ind_list (e : expr) : P e :=
  let all := fix all (l : list expr) : Forall P l :=
    match l with [] => Forall_nil P | x :: r => Forall_cons x (expr_ind_list x) (all r) end in
  match e with
  | ENum n => HNum n | EFact n => HFact n | EChoose n k => HChoose n k | EVar x => HVar x
  | ETag a s => HTag a s (expr_ind_list a) | EConv a s => HConv a s (expr_ind_list a)
  | EBin o a b => HBin o a b (expr_ind_list a) (expr_ind_list b)
  | ECmp c a b => HCmp c a b (expr_ind_list a) (expr_ind_list b)
  | EArr l => HArr l (all l)
  | ERange a b => HRange a b (expr_ind_list a) (expr_ind_list b)
  | ERange3 a b c => HRange3 a b c (expr_ind_list a) (expr_ind_list b) (expr_ind_list c)
  | EAgg f a => HAgg f a (expr_ind_list a)
  | EVarargs m l => HVarargs m l (all l)
  | EIn a b => HIn a b (expr_ind_list a) (expr_ind_list b)
  | EComp body names gens conds => HComp body names gens conds (expr_ind_list body) (all gens) (all conds)
  | ESeq a b => HSeq a b (expr_ind_list a) (expr_ind_list b)
  | EAssign x a => HAssign x a (expr_ind_list a)
  end.
End ExprInd.

(* the list evaluator inside Arrays.eval *)
Definition evals_of : list expr -> env -> res (list value * env) :=
  fix evals (l : list expr) (en : env) {struct l} : res (list value * env) :=
    match l with
    | [] => Ok ([], en)
    | x :: r => match eval ndims x en with
                | Raise err => Raise err
                | Ok (v, en1) => match evals r en1 with
                                 | Raise err => Raise err
                                 | Ok (vs, en2) => Ok (v :: vs, en2)
                                 end
                end
    end.
Lemma eval_arr l en : eval ndims (EArr l) en = match evals_of l en with Raise err => Raise err | Ok (vs, en1) => Ok (VA vs, en1) end.
Proof. reflexivity. Qed.
Lemma eval_varargs m l en : eval ndims (EVarargs m l) en =
  match evals_of l en with Raise err => Raise err | Ok (vs, en1) => with_env (vararg_ext ndims m vs) en1 end.
Proof. reflexivity. Qed.

Definition holds (f : nat) (e : expr) : Prop := forall en, dropA (a_node f a_wf (embedA e) en) = eval ndims e en.

Lemma mapM_children f l : Forall (holds f) l -> forall en,
  dropA (mapM (fun c => if true then a_node f a_wf c else retM vnone) (map embedA l) en) = evals_of l en.
Proof.
  induction 1 as [|x r Hx _ IH]; intros en; cbn [map mapM evals_of]; [reflexivity|].
  rewrite bindM_app. specialize (Hx en). destruct (a_node f a_wf (embedA x) en) as [[v|err] e1]; cbn [drop] in Hx; rewrite <- Hx; [|reflexivity].
  rewrite bindM_app. specialize (IH e1).
  destruct (mapM (fun c => if true then a_node f a_wf c else retM vnone) (map embedA r) e1) as [[vs|err] e2];
    cbn [drop] in IH; rewrite <- IH; reflexivity.
Qed.
Lemma mapM_length {E X Y} (g : X -> M E Y) l : forall e vs e', mapM g l e = (Ok vs, e') -> List.length vs = List.length l.
Proof.
  induction l as [|x r IH]; intros e vs e' H; cbn [mapM] in H.
  - inversion H. reflexivity.
  - rewrite bindM_app in H. destruct (g x e) as [[y|err] e1]; [|discriminate].
    rewrite bindM_app in H. destruct (mapM g r e1) as [[ys|err] e2] eqn:Hr; [|discriminate].
    inversion H. cbn [List.length]. rewrite (IH _ _ _ Hr). reflexivity.
Qed.

Lemma le_max_l a b f : (S (Nat.max a b) <= S f -> a <= f)%nat. Proof. lia. Qed.
Lemma le_max_r a b f : (S (Nat.max a b) <= S f -> b <= f)%nat. Proof. lia. Qed.

Ltac start en :=
  rewrite (eval_node_step env value usig vnone lookup set_var a_dispatch a_make_quantity a_convert_quantity VA
             value_as_arr a_eq_int _ a_wf _ en);
  cbn [children eval_children mapM n_leaf n_var n_call n_assign n_stmts n_qty n_conv n_arr].
(* evaluate the next child with its induction hypothesis H : holds f a *)
Ltac child H :=
  rewrite !bindM_app; cbv beta iota;
  match goal with |- context [a_node ?f a_wf (embedA ?a) ?e] =>
    let Hc := fresh "Hc" in
    pose proof (H e) as Hc;
    destruct (a_node f a_wf (embedA a) e) as [[?v|?err] ?e1]; cbn [drop] in Hc; rewrite <- Hc; clear Hc; [|reflexivity]
  end.

Lemma embed_not_kw e : negb (String.eqb (eval_mode value usig (embedA e)) "keyword-arg") = true.
Proof. destruct e; reflexivity. Qed.
Lemma no_kw_embed l : no_kw value usig (map embedA l) = true.
Proof. induction l as [|x r IH]; [reflexivity|]. unfold no_kw in *. cbn [map forallb]. rewrite embed_not_kw, IH. reflexivity. Qed.
Lemma no_kw_2 a b : no_kw value usig [embedA a; embedA b] = true.
Proof. exact (no_kw_embed [a; b]). Qed.
Lemma no_kw_1 a : no_kw value usig [embedA a] = true.
Proof. exact (no_kw_embed [a]). Qed.
Lemma no_kw_3 a b c : no_kw value usig [embedA a; embedA b; embedA c] = true.
Proof. exact (no_kw_embed [a; b; c]). Qed.

Lemma forall_holds l fu :
  Forall (fun e => wfA e = true -> forall fu, (edepth e <= fu)%nat -> holds fu e) l ->
  forallb wfA l = true -> (list_max (map edepth l) <= fu)%nat -> Forall (holds fu) l.
Proof.
  unfold list_max. induction 1 as [|x r Hx _ IH]; intros Hw Hd; [constructor|].
  cbn [forallb map fold_right] in *. apply andb_prop in Hw as [Hw1 Hw2]. constructor.
  - apply Hx; [exact Hw1|lia].
  - apply IH; [exact Hw2|lia].
Qed.

Lemma mapM_const {X} (g : X -> M env value) l e :
  mapM (fun c => if false then g c else retM vnone) l e = (Ok (map (fun _ => vnone) l), e).
Proof.
  revert e. induction l as [|x r IH]; intros e; cbn [mapM map]; [reflexivity|].
  rewrite bindM_app. cbv [retM]. rewrite bindM_app, IH. reflexivity.
Qed.

Lemma a_eq_int_1_0 v : a_eq_int v 1 = true -> a_eq_int v 0 = false.
Proof.
  destruct v as [[n|m d]|l]; cbn [a_eq_int]; try discriminate.
  unfold Qeqb. destruct (Qcompare_spec (toQ n) (inject_Z 1)) as [H1|H1|H1]; try discriminate. intros _.
  destruct (Qcompare_spec (toQ n) (inject_Z 0)) as [H0|H0|H0]; try reflexivity.
  rewrite H1 in H0. discriminate.
Qed.
Lemma a_blike v : blike_of value a_eq_int v = value_blike v.
Proof. destruct v as [[n|m d]|l]; reflexivity. Qed.

(* the name a generator carries is read by the comprehension that owns it, never by its own evaluation *)
Lemma a_node_gen fu n g e : a_node fu a_wf (n_gen value usig n g) e = a_node fu a_wf g e.
Proof. destruct fu; [reflexivity|]. destruct g. reflexivity. Qed.

Definition gens_of (gens : list expr) (names : list string) : list pn :=
  (fix go (gs : list expr) (ns : list string) {struct gs} : list pn :=
     match gs, ns with
     | g :: gs', n :: ns' => n_gen value usig n (embedA g) :: go gs' ns'
     | _, _ => []
     end) gens names.
Lemma gens_names gens : forall names, List.length names = List.length gens ->
  map (meta_name value usig) (gens_of gens names) = names.
Proof.
  induction gens as [|g r IH]; intros [|n ns] H; cbn in H; try discriminate; [reflexivity|].
  cbn [gens_of map]. fold (gens_of r ns). rewrite IH by lia. destruct (embedA g). reflexivity.
Qed.
Lemma gens_evs fu gens : Forall (holds fu) gens -> forall names, List.length names = List.length gens ->
  Forall2 (ev_eq value env) (map (ev_of env value usig (a_node fu a_wf)) (gens_of gens names))
          (map (fun g => fun en' => eval ndims g en') gens).
Proof.
  induction 1 as [|g r Hg _ IH]; intros [|n ns] H; cbn in H; try discriminate; [constructor|].
  cbn [gens_of map]. fold (gens_of r ns). constructor; [|apply IH; lia].
  intros e. unfold ev_of. rewrite a_node_gen. apply Hg.
Qed.
Lemma conds_evs fu conds : Forall (holds fu) conds ->
  Forall2 (ev_eq value env) (map (ev_of env value usig (a_node fu a_wf)) (map embedA conds))
          (map (fun g => fun en' => eval ndims g en') conds).
Proof. induction 1 as [|g r Hg _ IH]; cbn [map]; constructor; [intros e; apply Hg|exact IH]. Qed.

Ltac fin := cbv [bindM retM]; cbv beta iota.
Ltac names := unfold a_dispatch, qop_name, qcmp_name, agg_name, binop_of, cmp_of, agg_of;
              cbn [String.eqb Ascii.eqb Bool.eqb].

Theorem arrays_eval_is_source : forall e, wfA e = true -> forall fu, (edepth e <= fu)%nat -> holds fu e.
Proof.
  induction e using expr_ind_list; intros Hwf fu Hd; (destruct fu as [|fu]; [cbn [edepth] in Hd; lia|]); intros en;
    cbn [embedA eval]; cbn [wfA edepth] in Hwf, Hd.
  - (* ENum *) reflexivity.
  - (* EFact *) destruct fu as [|fu]; [lia|]. reflexivity.
  - (* EChoose *) destruct fu as [|fu]; [lia|]. reflexivity.
  - (* EVar *) start en. rewrite bindM_app. cbv [retM]. rewrite bom_var. destruct (lookup x en); reflexivity.
  - (* ETag *) start en. child (IHe Hwf fu ltac:(lia)). fin. rewrite bom_qty.
    destruct v as [q|l]; cbn [a_make_quantity drop]; [|reflexivity].
    unfold lift_v, lift_s. destruct (make_quantity ndims q s); reflexivity.
  - (* EConv *) start en. child (IHe Hwf fu ltac:(lia)). fin. rewrite bom_conv.
    destruct v as [q|l]; cbn [a_convert_quantity drop].
    + unfold lift_v, lift_s. destruct (convert_quantity ndims q s); reflexivity.
    + destruct (compose_units ndims s); reflexivity.
  - (* EBin *) apply andb_prop in Hwf as [Ha Hb]. start en.
    child (IHe1 Ha fu ltac:(lia)). child (IHe2 Hb fu ltac:(lia)). fin.
    rewrite bom_call by (try apply no_kw_2; reflexivity).
    destruct o; names; unfold with_env; destruct (v_binop ndims _ v v0); reflexivity.
  - (* ECmp *) destruct c; try discriminate; apply andb_prop in Hwf as [Ha Hb]; start en;
      child (IHe1 Ha fu ltac:(lia)); child (IHe2 Hb fu ltac:(lia)); fin;
      rewrite bom_call by (try apply no_kw_2; reflexivity);
      names; unfold with_env; destruct (v_cmp ndims _ v v0); reflexivity.
  - (* EArr *) start en. rewrite bindM_app.
    pose proof (mapM_children fu l (forall_holds l fu H Hwf ltac:(lia)) en) as Hc. unfold evals_of in Hc.
    destruct (mapM _ (map embedA l) en) as [[vs|err] e1]; cbn [drop] in Hc; rewrite <- Hc; [|reflexivity].
    rewrite bom_arr. reflexivity.
  - (* ERange *) apply andb_prop in Hwf as [Ha Hb]. start en.
    child (IHe1 Ha fu ltac:(lia)). child (IHe2 Hb fu ltac:(lia)). fin.
    rewrite bom_call by (try apply no_kw_2; reflexivity). names.
    destruct (as_int v); [destruct (as_int v0)|]; reflexivity.
  - (* ERange3 *) apply andb_prop in Hwf as [Hab Hc3]. apply andb_prop in Hab as [Ha Hb]. start en.
    child (IHe1 Ha fu ltac:(lia)). child (IHe2 Hb fu ltac:(lia)). child (IHe3 Hc3 fu ltac:(lia)). fin.
    rewrite bom_call by (try apply no_kw_3; reflexivity). names.
    destruct (as_num v); [destruct (as_num v0); [destruct (as_num v1)|]|]; try reflexivity.
    destruct (ka_range n n0 n1); reflexivity.
  - (* EAgg *) start en. child (IHe Hwf fu ltac:(lia)). fin.
    rewrite bom_call by (try apply no_kw_1; reflexivity).
    destruct f; names; (destruct v as [[n|m d]|l]; [try reflexivity..|]); unfold with_env;
      match goal with |- dropA (?r, _) = _ => destruct r; reflexivity end.
  - (* EVarargs *) apply andb_prop in Hwf as [Hn Hw]. start en. rewrite bindM_app.
    pose proof (mapM_children fu l (forall_holds l fu H Hw ltac:(lia)) en) as Hc. unfold evals_of in Hc.
    destruct (mapM _ (map embedA l) en) as [[vs|err] e1] eqn:Hm; cbn [drop] in Hc; rewrite <- Hc; [|reflexivity].
    pose proof (mapM_length _ _ _ _ _ Hm) as Hl. rewrite map_length in Hl.
    rewrite bom_call by (try apply no_kw_embed; rewrite map_length; exact Hl).
    assert (Hv : List.length vs <> 1%nat).
    { rewrite Hl. intros H1. rewrite H1 in Hn. discriminate. }
    destruct m; names; (destruct vs as [|v1 [|v2 r]]; [|contradiction Hv; reflexivity|]);
      try (unfold with_env; match goal with |- dropA (?r, _) = _ => destruct r; reflexivity end);
      destruct v1; unfold with_env; match goal with |- dropA (?r, _) = _ => destruct r; reflexivity end.
  - (* EIn *) apply andb_prop in Hwf as [Ha Hb]. start en.
    child (IHe1 Ha fu ltac:(lia)). child (IHe2 Hb fu ltac:(lia)). fin.
    rewrite bom_call by (try apply no_kw_2; reflexivity). names.
    destruct v0 as [s|l]; [reflexivity|]. unfold with_env. destruct (in_array ndims v l); reflexivity.
  - (* EComp *) rename e into body. apply andb_prop in Hwf as [Hw3 Hwc]. apply andb_prop in Hw3 as [Hw2 Hwg]. apply andb_prop in Hw2 as [Hlen Hwb].
    apply Nat.eqb_eq in Hlen.
    fold (gens_of gens names).
    rewrite (eval_node_step env value usig vnone lookup set_var a_dispatch a_make_quantity a_convert_quantity VA
               value_as_arr a_eq_int _ a_wf _ en).
    cbn [children eval_children n_comp comp_node]. rewrite bindM_app, (mapM_const (a_node fu a_wf)).
    rewrite (bom_comp env value usig vnone lookup set_var a_dispatch a_make_quantity a_convert_quantity VA
               value_as_arr a_eq_int u0 (a_node fu a_wf) a_wf _ _ _ _ en).
    unfold n_comp.
    rewrite (eval_comprehension_norm env value usig set_var VA value_as_arr a_eq_int (a_node fu a_wf) a_wf _ _ _ _ _ _ _ _ _ _ en).
    match goal with |- context [comprehensionM _ _ _ _ _ _ _ _ ?w _ _ _ _] =>
      change w with (comp_fuel value value_as_arr) end.
    rewrite <- (eval_comprehension_is_comprehensionM env value usig set_var VA value_as_arr a_eq_int
                  (a_node fu a_wf) a_eq_int_1_0).
    rewrite (gens_names gens names Hlen).
    rewrite (eval_comprehension_ext value env set_var value_as_arr (blike_of value a_eq_int) value_blike a_blike
               _ (fun en' => eval ndims body en') names _ (map (fun g => fun en' => eval ndims g en') gens)
               _ (map (fun c => fun en' => eval ndims c en') conds)).
    + destruct (eval_comprehension _ _ _ _ _ _ _ _ _ en) as [[vs ef]|]; reflexivity.
    + intros e. apply (IHe Hwb fu ltac:(lia)).
    + apply gens_evs; [apply forall_holds; [exact H|exact Hwg|lia]|exact Hlen].
    + apply conds_evs. apply forall_holds; [exact H0|exact Hwc|lia].
  - (* ESeq *) apply andb_prop in Hwf as [Ha Hb]. start en.
    child (IHe1 Ha fu ltac:(lia)). child (IHe2 Hb fu ltac:(lia)). fin.
    change [v; v0] with (([v] ++ [v0])%list). rewrite bom_stmts_last. reflexivity.
  - (* EAssign *) start en. child (IHe Hwf fu ltac:(lia)). fin. rewrite bom_assign. reflexivity.
Qed.
End ArraysTie.

(* ------------------------------------------------------------------------- *)
(* C14: Model/Session.v [eval] / [exec_stmt] / [run_one] are the source's eval_node on the parse trees of its
   statements; the binding table is the threaded state and is returned also when an exception is raised *)
Section SessionTie.
Import Session.
Variable vnone : Session.value.
Local Open Scope string_scope.

Definition s_eq_int (v : Session.value) (k : Z) : bool :=
  match v with VNum n => Qeqb (toQ n) (inject_Z k) | _ => false end.
Definition s_as_arr (v : Session.value) : option (list Session.value) := match v with VArr l => Some l | _ => None end.
Definition s_convert_quantity (v : Session.value) (u : string) : res Session.value := Raise Unmodelled.
Definition bop_name (o : bop) : string := match o with BAdd => "+" | BSub => "-" | BMul => "*" | BDiv => "/" end.
Definition bop_of (s : string) : option bop :=
  if String.eqb s "+" then Some BAdd else if String.eqb s "-" then Some BSub else
  if String.eqb s "*" then Some BMul else if String.eqb s "/" then Some BDiv else None.
Definition s_dispatch (name : string) (args : list Session.value) (kws : list (string * Session.value)) : res Session.value :=
  match kws with
  | _ :: _ => Raise Unmodelled
  | [] =>
    match bop_of name with
    | Some o => match args with [a; b] => arith o a b | _ => Raise Unmodelled end
    | None =>
        if String.eqb name "range" then
          match args with
          | [VNum (NInt lo); VNum (NInt hi)] => Ok (VArr (map (fun i => VNum (NInt i)) (zrange lo hi)))
          | _ => Raise Unmodelled
          end
        else fn_apply name args
    end
  end.

Notation sn := (pnode Session.value string).
Notation sleaf := (n_leaf Session.value string "").
Notation scall := (n_call Session.value string vnone "").

Fixpoint embedS (e : Session.expr) : sn :=
  match e with
  | ELit z => sleaf (VNum (NInt z))
  | Session.EVar x => n_var Session.value string vnone "" x
  | Session.EBin o a b => scall (bop_name o) [embedS a; embedS b]
  | ECall1 f a => scall f [embedS a]
  | ECall2 f a b => scall f [embedS a; embedS b]
  | EQty a u => n_qty Session.value string vnone (embedS a) u
  | Session.EComp body x lo hi =>
      n_comp Session.value string vnone "" (embedS body)
        [n_gen Session.value string x (scall "range" [sleaf (VNum (NInt lo)); sleaf (VNum (NInt hi))])] []
  end.
Definition embed_stmt (s : stmt) : sn :=
  match s with
  | Assign x e => n_assign Session.value string vnone "" x (embedS e)
  | Expr e => embedS e
  end.

(* a called name is a function name, not an operator or `range` (those have their own expression forms) *)
Definition plain_name (f : string) : bool :=
  match bop_of f with Some _ => false | None => negb (String.eqb f "range") end.
Fixpoint wfS (e : Session.expr) : bool :=
  match e with
  | ELit _ | Session.EVar _ => true
  | Session.EBin _ a b => wfS a && wfS b
  | ECall1 f a => plain_name f && wfS a
  | ECall2 f a b => plain_name f && wfS a && wfS b
  | EQty a _ => wfS a
  | Session.EComp body _ _ _ => wfS body
  end.
Definition wf_stmt (s : stmt) : bool := match s with Assign _ e | Expr e => wfS e end.
Fixpoint sdepth (e : Session.expr) : nat :=
  match e with
  | ELit _ | Session.EVar _ => 1
  | Session.EBin _ a b | ECall2 _ a b => S (Nat.max (sdepth a) (sdepth b))
  | ECall1 _ a | EQty a _ => S (sdepth a)
  | Session.EComp body _ _ _ => S (Nat.max (sdepth body) 2)
  end.
Definition stmt_depth (s : stmt) : nat := match s with Assign _ e => S (sdepth e) | Expr e => sdepth e end.

Definition s_wf (snap : sn * Z * Z * sn * list sn * list string * list Session.value * list sn * Z * list Session.value) : nat :=
  let '(_, _, _, _, _, _, subs, _, _, _) := snap in comp_fuel Session.value s_as_arr subs.

Notation s_node := (g_eval_node table Session.value string vnone tget tset s_dispatch Session.make_quantity s_convert_quantity
                                VArr s_as_arr s_eq_int).

Definition mkz (i : Z) : Session.value := VNum (NInt i).

Lemma s_comp_loop_ext (ev1 ev2 : table -> res Session.value * table) x : (forall t, ev1 t = ev2 t) ->
  forall l t acc, Session.comp_loop ev1 x l t acc = Session.comp_loop ev2 x l t acc.
Proof.
  intros H. induction l as [|i r IH]; intros t acc; cbn [Session.comp_loop]; [reflexivity|].
  rewrite H. destruct (ev2 (tset x (VNum (NInt i)) t)) as [[v|err] t2]; [apply IH|reflexivity].
Qed.

Lemma s_loop (en : sn -> M table Session.value) body x : forall rest done out t,
  (let '(r, t') := loopM table Session.value string tset s_as_arr s_eq_int en (S (List.length rest)) (List.length done)
                     [(x, VArr (map mkz (done ++ rest)))] [] body out t in
   (match r with Ok o => Ok (VArr o) | Raise e => Raise e end, t'))
  = Session.comp_loop (en body) x rest t (rev out).
Proof.
  induction rest as [|i r IH]; intros done out t.
  - cbn [loopM bind_atM Session.comp_loop List.length]. rewrite bindM_app.
    change (contents Session.value s_as_arr (VArr (map mkz (done ++ [])))) with (map mkz (done ++ [])).
    assert (Hn : nth_error (map mkz (done ++ [])) (List.length done) = None).
    { apply nth_error_None. rewrite map_length, app_length. cbn [List.length]. lia. }
    rewrite Hn. cbv [retM]. rewrite rev_involutive. reflexivity.
  - cbn [loopM bind_atM Session.comp_loop]. rewrite bindM_app.
    change (contents Session.value s_as_arr (VArr (map mkz (done ++ i :: r)))) with (map mkz (done ++ i :: r)).
    assert (Hn : nth_error (map mkz (done ++ i :: r)) (List.length done) = Some (mkz i)).
    { rewrite map_app, nth_error_app2 by (rewrite map_length; lia). rewrite map_length, Nat.sub_diag. reflexivity. }
    rewrite Hn. rewrite bindM_app. cbv [write_var retM]. rewrite bindM_app. cbn [condsM]. cbv [retM].
    rewrite bindM_app. fold (mkz i).
    destruct (en body (tset x (mkz i) t)) as [[v|err] t2]; [|reflexivity].
    specialize (IH (done ++ [i])%list (out ++ [v])%list t2).
    rewrite app_length, <- app_assoc in IH. cbn [List.length app] in IH.
    replace (List.length done + 1)%nat with (S (List.length done)) in IH by lia.
    rewrite rev_app_distr in IH. cbn [rev app] in IH. exact IH.
Qed.

Lemma s_dispatch_plain f args : plain_name f = true -> s_dispatch f args [] = fn_apply f args.
Proof.
  unfold plain_name, s_dispatch. destruct (bop_of f); [discriminate|].
  destruct (String.eqb f "range"); [discriminate|reflexivity].
Qed.

Lemma s_not_kw e : negb (String.eqb (eval_mode Session.value string (embedS e)) "keyword-arg") = true.
Proof. destruct e; reflexivity. Qed.
Lemma s_no_kw l : no_kw Session.value string (map embedS l) = true.
Proof. induction l as [|x r IH]; [reflexivity|]. unfold no_kw in *. cbn [map forallb]. rewrite s_not_kw, IH. reflexivity. Qed.

Lemma s_mapM_const {X} (g : X -> M table Session.value) l e :
  mapM (fun c => if false then g c else retM vnone) l e = (Ok (map (fun _ => vnone) l), e).
Proof.
  revert e. induction l as [|x r IH]; intros e; cbn [mapM map]; [reflexivity|].
  rewrite bindM_app. cbv [retM]. rewrite bindM_app, IH. reflexivity.
Qed.

Ltac sstart t :=
  rewrite (eval_node_step table Session.value string vnone tget tset s_dispatch Session.make_quantity s_convert_quantity
             VArr s_as_arr s_eq_int _ s_wf _ t);
  cbn [children eval_children mapM n_leaf n_var n_call n_assign n_stmts n_qty n_conv n_arr].
Ltac schild H :=
  rewrite !bindM_app; cbv beta iota; rewrite H;
  match goal with |- context [Session.eval ?a ?t] => destruct (Session.eval a t) as [[?v|?err] ?t1]; [|reflexivity] end.
Ltac sfin := cbv [bindM retM]; cbv beta iota.

Theorem session_eval_is_source : forall e, wfS e = true -> forall fu, (sdepth e <= fu)%nat ->
  forall t, s_node fu s_wf (embedS e) t = Session.eval e t.
Proof.
  induction e as [z|x|o a IHa b IHb|f a IHa|f a IHa b IHb|a IHa u|body IHb x lo hi]; intros Hwf fu Hd;
    (destruct fu as [|fu]; [cbn [sdepth] in Hd; lia|]); intros t; cbn [embedS Session.eval]; cbn [wfS sdepth] in Hwf, Hd.
  - reflexivity.
  - sstart t. rewrite bindM_app. cbv [retM]. rewrite bom_var. reflexivity.
  - apply andb_prop in Hwf as [Ha Hb]. sstart t.
    schild (IHa Ha fu ltac:(lia)). schild (IHb Hb fu ltac:(lia)). sfin.
    rewrite bom_call by (try apply (s_no_kw [a; b]); reflexivity).
    destruct o; reflexivity.
  - apply andb_prop in Hwf as [Hf Ha]. sstart t.
    schild (IHa Ha fu ltac:(lia)). sfin.
    rewrite bom_call by (try apply (s_no_kw [a]); reflexivity). rewrite (s_dispatch_plain f _ Hf). reflexivity.
  - apply andb_prop in Hwf as [Hfa Hb]. apply andb_prop in Hfa as [Hf Ha]. sstart t.
    schild (IHa Ha fu ltac:(lia)). schild (IHb Hb fu ltac:(lia)). sfin.
    rewrite bom_call by (try apply (s_no_kw [a; b]); reflexivity). rewrite (s_dispatch_plain f _ Hf). reflexivity.
  - sstart t. schild (IHa Hwf fu ltac:(lia)). sfin. rewrite bom_qty. reflexivity.
  - rewrite (eval_node_step table Session.value string vnone tget tset s_dispatch Session.make_quantity s_convert_quantity
               VArr s_as_arr s_eq_int _ s_wf _ t).
    cbn [children eval_children n_comp comp_node]. rewrite bindM_app, (s_mapM_const (s_node fu s_wf)).
    rewrite (bom_comp table Session.value string vnone tget tset s_dispatch Session.make_quantity s_convert_quantity
               VArr s_as_arr s_eq_int "" (s_node fu s_wf) s_wf _ _ _ _ t).
    unfold n_comp.
    rewrite (eval_comprehension_norm table Session.value string tset VArr s_as_arr s_eq_int (s_node fu s_wf) s_wf
               _ _ _ _ _ _ _ _ _ _ t).
    unfold comprehensionM. cbn [mapM]. rewrite !bindM_app.
    assert (Hg : s_node fu s_wf (n_gen Session.value string x (scall "range" [sleaf (VNum (NInt lo)); sleaf (VNum (NInt hi))])) t
                 = (Ok (VArr (map mkz (zrange lo hi))), t)).
    { destruct fu as [|[|fu]]; [lia|lia|]. reflexivity. }
    rewrite Hg. cbv [retM]. rewrite bindM_app. cbn [existsb s_as_arr is_some negb orb]. rewrite bindM_app.
    pose proof (s_loop (s_node fu s_wf) (embedS body) x (zrange lo hi) [] [] t) as HL.
    cbn [List.length app rev map combine meta_name n_gen n_call] in HL |- *.
    cbv [s_wf comp_fuel] in HL |- *. cbn [map contents s_as_arr min_len] in HL |- *. rewrite map_length.
    rewrite (s_comp_loop_ext _ (Session.eval body) x (fun t' => IHb Hwf fu ltac:(lia) t')) in HL.
    rewrite <- HL.
    destruct (loopM _ _ _ _ _ _ _ _ _ _ _ _ _ t) as [[o|err] t']; reflexivity.
Qed.
End SessionTie.

(* ---- statements: exec_stmt and run_one (one input to execute()) *)
Section SessionStmts.
Import Session.
Variable vnone : Session.value.
Local Open Scope string_scope.
Notation sn := (pnode Session.value string).
Notation s_node := (g_eval_node table Session.value string vnone tget tset s_dispatch Session.make_quantity s_convert_quantity
                                VArr s_as_arr s_eq_int).
Notation s_wf := (s_wf).
Notation emb := (embed_stmt vnone).

Theorem exec_stmt_is_source s : wf_stmt s = true -> forall fu, (stmt_depth s <= fu)%nat ->
  forall t, s_node fu s_wf (emb s) t = exec_stmt s t.
Proof.
  destruct s as [x e|e]; intros Hwf fu Hd t; cbn [embed_stmt exec_stmt wf_stmt stmt_depth] in *.
  - destruct fu as [|fu]; [lia|].
    rewrite (eval_node_step table Session.value string vnone tget tset s_dispatch Session.make_quantity s_convert_quantity
               VArr s_as_arr s_eq_int _ s_wf _ t).
    cbn [children eval_children mapM n_assign]. rewrite !bindM_app. cbv beta iota.
    rewrite (session_eval_is_source vnone e Hwf fu ltac:(lia) t).
    destruct (Session.eval e t) as [[v|err] t1]; [|reflexivity].
    cbv [bindM retM]. cbv beta iota. rewrite bom_assign. reflexivity.
  - apply session_eval_is_source; assumption.
Qed.

(* the value of an input: the last statement's, None for no statement *)
Definition opt_value (r : res (option Session.value)) : res Session.value :=
  match r with Ok None => Ok vnone | Ok (Some v) => Ok v | Raise e => Raise e end.

Lemma run_from_is_mapM fu ss : forallb wf_stmt ss = true -> (list_max (map stmt_depth ss) <= fu)%nat ->
  forall last t,
  run_from last ss t =
  (let '(r, t') := mapM (fun c => if true then s_node fu s_wf c else retM vnone) (map emb ss) t in
   (match r with Ok vs => Ok (match rev vs with v :: _ => Some v | [] => last end) | Raise e => Raise e end, t')).
Proof.
  unfold list_max. induction ss as [|s r IH]; intros Hwf Hd last t; cbn [map mapM run_from]; [reflexivity|].
  cbn [forallb map fold_right] in Hwf, Hd. apply andb_prop in Hwf as [Hs Hr].
  rewrite bindM_app, (exec_stmt_is_source s Hs fu ltac:(lia) t).
  destruct (exec_stmt s t) as [[v|err] t1]; [|reflexivity].
  rewrite bindM_app, (IH Hr ltac:(lia) (Some v) t1).
  destruct (mapM _ (map emb r) t1) as [[vs|err] t2]; [|reflexivity].
  cbv [retM]. cbn [rev]. destruct (rev vs) as [|w ws]; reflexivity.
Qed.

Theorem run_one_is_source ss : forallb wf_stmt ss = true -> forall fu, (list_max (map stmt_depth ss) < fu)%nat ->
  forall t,
  s_node fu s_wf (n_stmts Session.value string vnone "" (map emb ss)) t
  = (opt_value (fst (run_one ss t)), snd (run_one ss t)).
Proof.
  intros Hwf fu Hd t. destruct fu as [|fu]; [lia|].
  rewrite (eval_node_step table Session.value string vnone tget tset s_dispatch Session.make_quantity s_convert_quantity
             VArr s_as_arr s_eq_int _ s_wf _ t).
  cbn [children eval_children n_stmts]. rewrite bindM_app.
  unfold run_one. rewrite (run_from_is_mapM fu ss Hwf ltac:(lia) None t).
  destruct (mapM _ (map emb ss) t) as [[vs|err] t1]; [|reflexivity].
  cbn [fst snd opt_value].
  destruct (rev vs) as [|w ws] eqn:Hr.
  - apply (f_equal (@rev _)) in Hr. rewrite rev_involutive in Hr. subst vs. reflexivity.
  - apply (f_equal (@rev _)) in Hr. rewrite rev_involutive in Hr. subst vs. cbn [rev]. apply bom_stmts_last.
Qed.
End SessionStmts.

(* ------------------------------------------------------------------------- *)
(* eval_parse_tree: ZeroDivisionError and OverflowError become EvalError, every other class passes
   (Model/Exec.v through_eval_parse_tree, computed from the regenerated except lists) *)
Definition converted (x : exn) : exn :=
  match x with ZeroDivisionError | OverflowError => EvalError | _ => x end.

Section ParseTree.
Variables (E V U : Type).
Variable vnone : V.
Variable getv : string -> E -> option V.
Variable setv : string -> V -> E -> E.
Variable dispatch : string -> list V -> list (string * V) -> res V.
Variable make_quantity : V -> U -> res V.
Variable convert_quantity : V -> U -> res V.
Variable mk_arr : list V -> V.
Variable as_arr : V -> option (list V).
Variable eq_int : V -> Z -> bool.

Lemma eval_parse_tree_is_source fuel wf root e :
  g_eval_parse_tree E V U vnone getv setv dispatch make_quantity convert_quantity mk_arr as_arr eq_int fuel wf root e
  = (match fst (g_eval_node E V U vnone getv setv dispatch make_quantity convert_quantity mk_arr as_arr eq_int fuel wf root e) with
     | Ok v => Ok v
     | Raise x => Raise (converted x)
     end,
     snd (g_eval_node E V U vnone getv setv dispatch make_quantity convert_quantity mk_arr as_arr eq_int fuel wf root e)).
Proof.
  unfold g_eval_parse_tree, catchM. rewrite bindM_app.
  destruct (g_eval_node E V U vnone getv setv dispatch make_quantity convert_quantity mk_arr as_arr eq_int fuel wf root e)
    as [[v|x] e1]; [reflexivity|].
  destruct x; reflexivity.
Qed.
End ParseTree.

Lemma converted_is_model x : show_exn (converted x) = Exec.through_eval_parse_tree (show_exn x).
Proof. destruct x; vm_compute; reflexivity. Qed.

(* ------------------------------------------------------------------------- *)
(* data: the mode constants, the environment's constructor, the shape of execute() *)
Local Open Scope string_scope.

Lemma eval_modes_is_source :
  g_eval_modes = [("LEAF", "leaf"); ("VARIABLE", "variable"); ("FUNCALL", "funcall"); ("ASSIGNMENT", "assignment");
                  ("STATEMENTS", "statements"); ("QUANTITY", "quantity"); ("CONVERT_UNIT", "convert-unit");
                  ("ARRAY", "array"); ("ARRAY_WITH_CONDITION", "array-with-condition"); ("KEYWORD_ARG", "keyword-arg")].
Proof. reflexivity. Qed.

(* EvalEnvironment(): a copy of CONSTANTS (Session.new_session: Some (consts st)); no other method touches the table *)
Lemma env_init_is_source :
  g_env_init = ["self._variables = CONSTANTS.copy()"] /\ g_env_methods = ["__init__"; "set_variable"; "get_variable"].
Proof. split; reflexivity. Qed.

(* execute(): default environment, then the three stages, each in its own try statement *)
Definition x_tries : list xstmt := filter (fun s => match s with XTry _ _ _ => true | _ => false end) g_execute_shape.
Definition x_calls (s : xstmt) : list (string * list string) := match s with XTry c _ _ => c | _ => [] end.
Definition x_binds (s : xstmt) : list (string * string) := match s with XTry _ b _ => b | _ => [] end.
Definition x_handlers (s : xstmt) : list (list string * list string * bool) := match s with XTry _ _ h => h | _ => [] end.
Definition x_stage (k : nat) : xstmt := nth k x_tries (XOther "" [] false).

(* tokenise -> parse -> eval -> reduce -> display, each stage fed the previous stage's result, and `env` given to
   eval_parse_tree as it was received *)
Lemma execute_pipeline_is_source :
  List.length x_tries = 3%nat
  /\ x_calls (x_stage 0) = [("tokenise", ["s"])] /\ x_binds (x_stage 0) = [("tokens", "tokenise")]
  /\ x_calls (x_stage 1) = [("parse_tokens", ["tokens"])] /\ x_binds (x_stage 1) = [("parse_tree", "parse_tokens")]
  /\ firstn 2 (x_calls (x_stage 2)) = [("eval_parse_tree", ["parse_tree"; "env"]); ("reduce_result", ["result"])]
  /\ x_binds (x_stage 2) = [("result", "eval_parse_tree"); ("reduced", "reduce_result")]
  /\ existsb (fun c => String.eqb (fst c) "display_result" && String.eqb (hd "" (snd c)) "reduced") (x_calls (x_stage 2)) = true.
Proof. repeat split; reflexivity. Qed.

(* the handlers of each stage are those of the regenerated except lists (Gen/GenInterp.v), on which
   GenFacts/InterpFacts.v and Properties/C06.v rest: classes and returned status, in order *)
Definition handler_view (h : GenInterp.handler) : list string * list string := (fst (fst h), snd (fst h)).
Lemma execute_handlers_is_source k : (k < 3)%nat ->
  map (fun h => (fst (fst h), snd (fst h))) (x_handlers (x_stage k))
  = map handler_view (Exec.handlers_of "interpret.execute" k).
Proof. intros H. destruct k as [|[|[|k]]]; [reflexivity..|lia]. Qed.

(* the persistent environment: `env` is the caller's object (a fresh one only when none was given), it is handed to
   eval_parse_tree itself, no handler and no other statement mentions it, nothing re-binds it: whatever evaluation
   wrote before failing stays written (Session.exec_in keeps the table of a failed input) *)
Definition mentions_env (s : xstmt) : bool :=
  match s with
  | XDefault _ _ => false
  | XTry c _ h => existsb (fun hd => snd hd) h
  | XOther _ a m => m || existsb (String.eqb "env") a
  end.
Lemma execute_env_is_source :
  hd (XOther "" [] false) g_execute_shape = XDefault "env" "EvalEnvironment"
  /\ existsb mentions_env g_execute_shape = false
  /\ filter (fun c => existsb (String.eqb "env") (snd c)) (flat_map x_calls g_execute_shape)
     = [("eval_parse_tree", ["parse_tree"; "env"])]
  /\ existsb (fun s => existsb (fun b => String.eqb (fst b) "env") (x_binds s)) g_execute_shape = false.
Proof. repeat split; reflexivity. Qed.

(* C12's [run]: evaluation from the initial environment *)
Theorem arrays_run_is_source ndims vnone e : wfA e = true ->
  run ndims e =
  match fst (g_eval_node env value usig vnone lookup set_var (a_dispatch ndims) (a_make_quantity ndims)
               (a_convert_quantity ndims) VA value_as_arr a_eq_int (edepth e) a_wf (embedA vnone e) init_env) with
  | Ok v => Ok v
  | Raise x => Raise x
  end.
Proof.
  intros Hwf. unfold run. rewrite <- (arrays_eval_is_source ndims vnone e Hwf (edepth e) (le_n _) init_env).
  destruct (g_eval_node _ _ _ _ _ _ _ _ _ _ _ _ _ _ _ _) as [[v|x] e1]; reflexivity.
Qed.

Print Assumptions array_prod_is_source.
Print Assumptions array_min_is_source.
Print Assumptions array_max_is_source.
Print Assumptions array_sum_is_source.
Print Assumptions array_size_is_source.
Print Assumptions array_mean_is_source.
Print Assumptions in_array_is_source.
Print Assumptions ka_cmp_is_source.
Print Assumptions ka_sort_is_sortedR.
Print Assumptions array_median_is_source.
Print Assumptions ka_range_is_source.
Print Assumptions int_range_is_source.
Print Assumptions array_registry_is_source.
Print Assumptions run_agg_is_source.
Print Assumptions eval_comprehension_norm.
Print Assumptions eval_comprehension_is_comprehensionM.
Print Assumptions eval_node_step.
Print Assumptions arrays_eval_is_source.
Print Assumptions arrays_run_is_source.
Print Assumptions session_eval_is_source.
Print Assumptions exec_stmt_is_source.
Print Assumptions run_one_is_source.
Print Assumptions eval_parse_tree_is_source.
Print Assumptions converted_is_model.
Print Assumptions eval_modes_is_source.
Print Assumptions env_init_is_source.
Print Assumptions execute_pipeline_is_source.
Print Assumptions execute_handlers_is_source.
Print Assumptions execute_env_is_source.
