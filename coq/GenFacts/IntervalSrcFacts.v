(* IntervalSrcFacts.v — the hand-written interval model (Model/Interval.v) IS the source:
   Gen/GenIntervalSrc.v is regenerated on every run from the Python AST of the `# Intervals #`
   section of ka/functions.py and the Interval accessors of ka/types.py
   (harness/trans_interval.py), and every model definition is proved equal, for all arguments
   and all scalar kernels sqrtK / logK / powK, to the generated one.  A change of an operand
   order, comparison, constant, branch order, exception or registration in the source breaks
   one of these lemmas (or leaves the generated file without the definition: fail closed).

   Shape of the statements.  The generated functions live in the `res` monad (every
   dispatch() may raise), the model's pure helpers do not, so a pure model function f is
   stated as  Ok (f args) = g_f args,  and a model function returning `res val` as
   f args = do r <- g_f args; Ok (VI r).

   Registrations.  GenFacts/IntervalFacts.v already proves that the LIVE registry resolves
   as [resolve] says (by the recorded text of each registered function object).  Here the
   other half: [g_run] maps that text to the translated function it denotes in the source,
   and [run_body_is_source] proves that the model's body for every resolution equals it;
   [registered_agree] / [resolve_covered] restate the name/signature table from the source
   text alone (register_function / register_commutative_op / register_interval_cmp calls
   and the two `for n in [...]` loops). *)
From Coq Require Import QArith Qabs Bool String List.
From Ka Require Import Model.Interval Gen.GenIntervalSrc.
Import ListNotations.
Open Scope Q_scope.
Open Scope string_scope.

Lemma truthy_b2q b : truthy (b2q b) = b.
Proof. destruct b; reflexivity. Qed.

Lemma bind_Ok_r {A} (r : res A) : (do x <- r; Ok x) = r.
Proof. destruct r; reflexivity. Qed.

Section Facts.
Variable sqrtK : Q -> Q.
Variable logK : Q -> Q -> Q.
Variable powK : Q -> Q -> Q.

Local Notation dname := (dname sqrtK logK powK).
Local Notation s_pow := (s_pow powK).
Local Notation s_sqrt := (s_sqrt sqrtK).
Local Notation s_log := (s_log logK).

(* ------------------------------------------------------------------ dispatch on numbers
   what  dname NAME [operands]  (the model's ka_apply on numbers) computes, per name used
   in the section *)
Lemma dname_le a b : dname "<=" [a; b] = Ok (b2q (qleb a b)).
Proof. reflexivity. Qed.
Lemma dname_lt a b : dname "<" [a; b] = Ok (b2q (qltb a b)).
Proof. reflexivity. Qed.
Lemma dname_eq a b : dname "==" [a; b] = Ok (b2q (qeqb a b)).
Proof. reflexivity. Qed.
Lemma dname_min2 a b : dname "min" [a; b] = Ok (qmin a b).
Proof. reflexivity. Qed.
Lemma dname_max2 a b : dname "max" [a; b] = Ok (qmax a b).
Proof. reflexivity. Qed.
Lemma dname_min3 a b c : dname "min" [a; b; c] = Ok (qmin3 a b c).
Proof. reflexivity. Qed.
Lemma dname_max3 a b c : dname "max" [a; b; c] = Ok (qmax3 a b c).
Proof. reflexivity. Qed.
Lemma dname_neg a : dname "-" [a] = Ok (- a).
Proof. reflexivity. Qed.
Lemma dname_sub a b : dname "-" [a; b] = Ok (a - b).
Proof. reflexivity. Qed.
Lemma dname_add a b : dname "+" [a; b] = Ok (a + b).
Proof. reflexivity. Qed.
Lemma dname_abs a : dname "abs" [a] = Ok (Qabs a).
Proof. reflexivity. Qed.
Lemma dname_pow x e : dname "^" [x; e] = s_pow x e.
Proof.
  change (dname "^" [x; e]) with
    (match (do q <- s_pow x e; Ok (VN q)) with
     | Ok (VN q) => Ok q | Ok (VI _) => Raise Unmodelled | Raise ex => Raise ex end).
  destruct (s_pow x e); reflexivity.
Qed.
Lemma dname_sqrt x : dname "sqrt" [x] = s_sqrt x.
Proof.
  change (dname "sqrt" [x]) with
    (match (do q <- s_sqrt x; Ok (VN q)) with
     | Ok (VN q) => Ok q | Ok (VI _) => Raise Unmodelled | Raise ex => Raise ex end).
  destruct (s_sqrt x); reflexivity.
Qed.
Lemma dname_log x b : dname "log" [x; b] = s_log x b.
Proof.
  change (dname "log" [x; b]) with
    (match (do q <- s_log x b; Ok (VN q)) with
     | Ok (VN q) => Ok q | Ok (VI _) => Raise Unmodelled | Raise ex => Raise ex end).
  destruct (s_log x b); reflexivity.
Qed.

(* the closure variable `opname` of make_interval_with_num_op: the four instances *)
Lemma dname_arith f x y : In f [FAdd; FSub; FMul; FDiv] ->
  dname (fname_str f) [x; y] = s_arith f x y.
Proof.
  intros [H|[H|[H|[H|[]]]]]; subst f; try reflexivity.
  change (dname (fname_str FDiv) [x; y]) with
    (match (do q <- s_div x y; Ok (VN q)) with
     | Ok (VN q) => Ok q | Ok (VI _) => Raise Unmodelled | Raise ex => Raise ex end).
  cbn [s_arith]. destruct (s_div x y); reflexivity.
Qed.

(* the closure variable `name` of register_interval_cmp: "<" and "<=" *)
Lemma dname_cmp f x y : In f [FLt; FLe] ->
  dname (fname_str f) [x; y] = Ok (cmpq f x y).
Proof. intros [H|[H|[]]]; subst f; reflexivity. Qed.

Ltac dsp :=
  rewrite ?dname_le, ?dname_lt, ?dname_eq, ?dname_min2, ?dname_max2, ?dname_min3, ?dname_max3,
          ?dname_neg, ?dname_sub, ?dname_add, ?dname_abs, ?dname_pow, ?dname_sqrt, ?dname_log;
  cbn [bind]; rewrite ?truthy_b2q.

(* ------------------------------------------------------------------ the functions *)
Local Notation g_from_bounds := (g_make_interval_from_bounds sqrtK logK powK).

(* make_interval_from_bounds *)
Lemma from_bounds_is_source x y : Ok (from_bounds x y) = g_from_bounds x y.
Proof. unfold g_make_interval_from_bounds, from_bounds. dsp. reflexivity. Qed.

(* make_interval_with_num_op(opname).op, for the four operators it is instantiated with *)
Lemma iv_num_op_is_source f I n : In f [FAdd; FSub; FMul; FDiv] ->
  iv_num_op f I n =
  do r <- g_make_interval_with_num_op_op sqrtK logK powK (fname_str f) I n; Ok (VI r).
Proof.
  intro Hf. unfold g_make_interval_with_num_op_op, iv_num_op.
  rewrite !(dname_arith f _ _ Hf).
  destruct (s_arith f (lo I) n) as [a|]; cbn [bind]; [|reflexivity].
  destruct (s_arith f (hi I) n) as [b|]; cbn [bind]; [|reflexivity].
  rewrite <- from_bounds_is_source. reflexivity.
Qed.

(* make_num_with_interval_op(opname).op: defined in the source but never registered, so the
   model has no body for it (Model/Interval.v, header); what the source says it computes: *)
Definition num_iv_op (f : fname) (I : ival) (n : Q) : res val :=
  do a <- s_arith f n (lo I);
  do b <- s_arith f n (hi I);
  Ok (VI (from_bounds a b)).
Lemma num_iv_op_is_source f I n : In f [FAdd; FSub; FMul; FDiv] ->
  num_iv_op f I n =
  do r <- g_make_num_with_interval_op_op sqrtK logK powK (fname_str f) I n; Ok (VI r).
Proof.
  intro Hf. unfold g_make_num_with_interval_op_op, num_iv_op.
  rewrite !(dname_arith f _ _ Hf).
  destruct (s_arith f n (lo I)) as [a|]; cbn [bind]; [|reflexivity].
  destruct (s_arith f n (hi I)) as [b|]; cbn [bind]; [|reflexivity].
  rewrite <- from_bounds_is_source. reflexivity.
Qed.

(* make_interval *)
Lemma make_interval_is_source a b :
  Ok (make_interval a b) = g_make_interval sqrtK logK powK a b.
Proof. unfold g_make_interval, make_interval. dsp. destruct (qleb a b); reflexivity. Qed.

(* interval_contains *)
Lemma contains_is_source I x :
  Ok (contains_q I x) = g_interval_contains sqrtK logK powK I x.
Proof. unfold g_interval_contains, contains_q. dsp. reflexivity. Qed.

(* interval_has_negative (a number in the source, read as a truth value by its callers) *)
Lemma has_negative_is_source I :
  Ok (b2q (has_negative I)) = g_interval_has_negative sqrtK logK powK I.
Proof. unfold g_interval_has_negative, has_negative. dsp. reflexivity. Qed.

(* interval_to_power *)
Lemma iv_pow_is_source I e :
  iv_pow powK I e = do r <- g_interval_to_power sqrtK logK powK I e; Ok (VI r).
Proof.
  unfold g_interval_to_power, iv_pow.
  rewrite <- has_negative_is_source, <- contains_is_source. cbn [bind]. rewrite truthy_b2q.
  destruct (has_negative I); cbn [andb bind];
    [destruct (is_fractional e); cbn [bind]; [reflexivity|]|];
    (destruct (truthy (contains_q I 0)); dsp;
     [destruct (qltb e 0); [reflexivity|]|];
     cbn [app mapM bind]; dsp;
     (destruct (s_pow (lo I) e) as [pa|]; cbn [bind]; [|reflexivity]);
     (destruct (s_pow (hi I) e) as [pb|]; cbn [bind]; [|reflexivity]);
     try (destruct (s_pow 0 e) as [p0|]; cbn [bind]; [|reflexivity]);
     dsp; reflexivity).
Qed.

(* interval_flip *)
Lemma iv_flip_is_source I : Ok (iv_flip I) = g_interval_flip sqrtK logK powK I.
Proof. unfold g_interval_flip, iv_flip. dsp. reflexivity. Qed.

(* interval_sqrt *)
Lemma iv_sqrt_is_source I :
  iv_sqrt sqrtK I = do r <- g_interval_sqrt sqrtK logK powK I; Ok (VI r).
Proof.
  unfold g_interval_sqrt, iv_sqrt. rewrite <- has_negative_is_source. cbn [bind].
  rewrite truthy_b2q. destruct (has_negative I); [reflexivity|]. dsp.
  destruct (s_sqrt (lo I)) as [a|]; cbn [bind]; [|reflexivity].
  destruct (s_sqrt (hi I)) as [b|]; reflexivity.
Qed.

(* interval_log *)
Lemma iv_log_is_source I base :
  iv_log logK I base = do r <- g_interval_log sqrtK logK powK I base; Ok (VI r).
Proof.
  unfold g_interval_log, iv_log. dsp.
  destruct (qleb base 0); [reflexivity|]. dsp.
  destruct (qleb (lo I) 0); [reflexivity|]. dsp.
  destruct (s_log (lo I) base) as [a|]; cbn [bind]; [|reflexivity].
  destruct (s_log (hi I) base) as [b|]; cbn [bind]; [|reflexivity].
  rewrite <- from_bounds_is_source. reflexivity.
Qed.

(* interval_ln / interval_log10 / interval_log2: the model's bodies BLn / BLog10 / BLog2 *)
Lemma iv_ln_is_source I :
  iv_log logK I e_float = do r <- g_interval_ln sqrtK logK powK I; Ok (VI r).
Proof. unfold g_interval_ln. rewrite bind_Ok_r. apply iv_log_is_source. Qed.
Lemma iv_log10_is_source I :
  iv_log logK I 10 = do r <- g_interval_log10 sqrtK logK powK I; Ok (VI r).
Proof. unfold g_interval_log10. rewrite bind_Ok_r. apply iv_log_is_source. Qed.
Lemma iv_log2_is_source I :
  iv_log logK I 2 = do r <- g_interval_log2 sqrtK logK powK I; Ok (VI r).
Proof. unfold g_interval_log2. rewrite bind_Ok_r. apply iv_log_is_source. Qed.

(* interval_abs *)
Lemma iv_abs_is_source I : Ok (iv_abs I) = g_interval_abs sqrtK logK powK I.
Proof.
  unfold g_interval_abs, iv_abs. cbn [mapM bind]. dsp. cbn [mapM bind].
  rewrite <- contains_is_source. cbn [bind].
  destruct (truthy (contains_q I 0)); dsp; reflexivity.
Qed.

(* the closures of register_interval_cmp(name, reverse_name), name = "<" or "<=" *)
Lemma cmp_interval_num_is_source f I x : In f [FLt; FLe] ->
  Ok (cmpq f (hi I) x) = g_register_interval_cmp_interval_num sqrtK logK powK (fname_str f) I x.
Proof.
  intro Hf. unfold g_register_interval_cmp_interval_num. rewrite (dname_cmp f _ _ Hf). reflexivity.
Qed.
Lemma cmp_num_interval_is_source f x I : In f [FLt; FLe] ->
  Ok (cmpq f x (lo I)) = g_register_interval_cmp_num_interval sqrtK logK powK (fname_str f) x I.
Proof.
  intro Hf. unfold g_register_interval_cmp_num_interval. rewrite (dname_cmp f _ _ Hf). reflexivity.
Qed.
Lemma cmp_interval_interval_is_source f I1 I2 : In f [FLt; FLe] ->
  Ok (cmpq f (hi I1) (lo I2)) =
  g_register_interval_cmp_interval_interval sqrtK logK powK (fname_str f) I1 I2.
Proof.
  intro Hf. unfold g_register_interval_cmp_interval_interval. rewrite (dname_cmp f _ _ Hf). reflexivity.
Qed.

(* swap(f) = swapped_f(y, x) = f(x, y), and register_commutative_op's reverse_f likewise *)
Lemma swapped_f_is_source {A B C} (f : A -> B -> res C) y x :
  f x y = g_register_interval_cmp_swap_swapped_f f y x.
Proof. unfold g_register_interval_cmp_swap_swapped_f. rewrite bind_Ok_r. reflexivity. Qed.
Lemma reverse_f_is_source {A B C} (f : A -> B -> res C) y x :
  f x y = g_register_commutative_op_reverse_f f y x.
Proof. unfold g_register_commutative_op_reverse_f. rewrite bind_Ok_r. reflexivity. Qed.

(* in_interval *)
Lemma in_interval_is_source x I : Ok (contains_q I x) = g_in_interval sqrtK logK powK x I.
Proof. unfold g_in_interval, contains_q. dsp. reflexivity. Qed.

(* interval_eq / interval_neq *)
Lemma iv_eq_is_source I J : Ok (iv_eq I J) = g_interval_eq sqrtK logK powK I J.
Proof. unfold g_interval_eq, iv_eq. dsp. reflexivity. Qed.
Lemma iv_neq_is_source I J : Ok (1 - iv_eq I J) = g_interval_neq sqrtK logK powK I J.
Proof. unfold g_interval_neq. rewrite <- iv_eq_is_source. reflexivity. Qed.

(* interval_min / interval_max *)
Lemma iv_min_is_source I x : Ok (iv_min I x) = g_interval_min sqrtK logK powK I x.
Proof.
  unfold g_interval_min, iv_min. dsp. destruct (qleb (hi I) x); [reflexivity|]. dsp.
  destruct (qleb x (lo I)); reflexivity.
Qed.
Lemma iv_max_is_source I x : Ok (iv_max I x) = g_interval_max sqrtK logK powK I x.
Proof.
  unfold g_interval_max, iv_max. dsp. destruct (qleb (hi I) x); [reflexivity|]. dsp.
  destruct (qleb x (lo I)); reflexivity.
Qed.

(* interval_size *)
Lemma iv_size_is_source I : Ok (iv_size I) = g_interval_size sqrtK logK powK I.
Proof. unfold g_interval_size, iv_size. dsp. reflexivity. Qed.

(* interval_plusminus *)
Lemma iv_plusminus_is_source x y : Ok (iv_plusminus x y) = g_interval_plusminus sqrtK logK powK x y.
Proof.
  unfold g_interval_plusminus, iv_plusminus. dsp. rewrite <- from_bounds_is_source. reflexivity.
Qed.

(* types.py: interval_get_lower / interval_get_upper *)
Lemma get_lower_is_source I : Ok (lo I) = g_interval_get_lower I.
Proof. reflexivity. Qed.
Lemma get_upper_is_source I : Ok (hi I) = g_interval_get_upper I.
Proof. reflexivity. Qed.

(* ------------------------------------------------------------------ registrations -> bodies
   Every body the model's [resolve] can select inside this section (everything except the
   number-only registrations BNum and the (Any, Any) catch-alls of "==" / "!=", which are
   registered elsewhere in functions.py) is, by the text [body_impl] records for it, the
   translated source function [g_run] finds under that text. *)
Definition in_section (b : body) : bool :=
  match b with BNum _ | BAnyEq | BAnyNeq => false | _ => true end.

Ltac pick_key :=
  cbv beta iota delta [g_run String.eqb Ascii.eqb Bool.eqb andb].

Ltac to_model :=
  rewrite <- ?reverse_f_is_source, <- ?swapped_f_is_source;
  first
    [ rewrite <- (iv_num_op_is_source FAdd) by (cbn; tauto)
    | rewrite <- (iv_num_op_is_source FSub) by (cbn; tauto)
    | rewrite <- (iv_num_op_is_source FMul) by (cbn; tauto)
    | rewrite <- (iv_num_op_is_source FDiv) by (cbn; tauto)
    | rewrite <- iv_pow_is_source | rewrite <- iv_sqrt_is_source | rewrite <- iv_log_is_source
    | rewrite <- iv_ln_is_source | rewrite <- iv_log10_is_source | rewrite <- iv_log2_is_source
    | rewrite <- make_interval_is_source | rewrite <- contains_is_source
    | rewrite <- iv_flip_is_source | rewrite <- iv_abs_is_source
    | rewrite <- (cmp_interval_num_is_source FLt) by (cbn; tauto)
    | rewrite <- (cmp_interval_num_is_source FLe) by (cbn; tauto)
    | rewrite <- (cmp_num_interval_is_source FLt) by (cbn; tauto)
    | rewrite <- (cmp_num_interval_is_source FLe) by (cbn; tauto)
    | rewrite <- (cmp_interval_interval_is_source FLt) by (cbn; tauto)
    | rewrite <- (cmp_interval_interval_is_source FLe) by (cbn; tauto)
    | rewrite <- in_interval_is_source | rewrite <- iv_eq_is_source | rewrite <- iv_neq_is_source
    | rewrite <- iv_min_is_source | rewrite <- iv_max_is_source | rewrite <- iv_size_is_source
    | rewrite <- iv_plusminus_is_source | rewrite <- get_lower_is_source
    | rewrite <- get_upper_is_source | idtac ].

Theorem run_body_is_source : forall f args b key,
  resolve f (map kind_of args) = Some b -> in_section b = true -> body_impl b = Some key ->
  run_body sqrtK logK powK b args = g_run sqrtK logK powK key args.
Proof.
  intros f args b key Hr Hs Hk.
  destruct args as [|v1 [|v2 [|v3 rest]]].
  - destruct f; cbv in Hr; inversion Hr; subst b; discriminate Hs.
  - destruct v1, f; cbv in Hr; inversion Hr; subst b; try discriminate Hs;
      cbv in Hk; inversion Hk; subst key; pick_key; cbn [run_body]; to_model; reflexivity.
  - destruct v1, v2, f; cbv in Hr; inversion Hr; subst b; try discriminate Hs;
      cbv in Hk; inversion Hk; subst key; pick_key; cbn [run_body]; to_model; reflexivity.
  - exfalso. cbn [map] in Hr. unfold resolve in Hr.
    destruct (all_KN (kind_of v1 :: kind_of v2 :: kind_of v3 :: map kind_of rest)).
    + cbn [List.length] in Hr.
      destruct f; cbn in Hr; inversion Hr; subst b; discriminate Hs.
    + destruct f, (kind_of v1), (kind_of v2), (kind_of v3); discriminate Hr.
Qed.

(* with [resolve], the model's dispatch of an interval operation is the source function *)
Corollary ka_apply_is_source : forall f args b key,
  resolve f (map kind_of args) = Some b -> in_section b = true -> body_impl b = Some key ->
  ka_apply sqrtK logK powK f args = g_run sqrtK logK powK key args.
Proof.
  intros f args b key Hr Hs Hk. unfold ka_apply. rewrite Hr.
  exact (run_body_is_source f args b key Hr Hs Hk).
Qed.

End Facts.

(* ------------------------------------------------------------------ the registration table
   (from the source text alone; the live registry is compared in IntervalFacts.v) *)
Definition kind_eqb (a b : kind) : bool :=
  match a, b with KN, KN | KI, KI => true | _, _ => false end.
Fixpoint kinds_eqb (a b : list kind) : bool :=
  match a, b with
  | [], [] => true
  | x :: a', y :: b' => kind_eqb x y && kinds_eqb a' b'
  | _, _ => false
  end.

(* every registration of the section is the one [resolve] selects for that name and signature *)
Definition reg_agrees (r : string * list kind * string) : bool :=
  match r with
  | (name, ks, key) =>
      match fname_of name with
      | Some f =>
          match resolve f ks with
          | Some b => in_section b &&
                      match body_impl b with Some s => String.eqb s key | None => false end
          | None => false
          end
      | None => false
      end
  end.
Lemma registered_agree : forallb reg_agrees g_registered = true.
Proof. vm_compute. reflexivity. Qed.

(* no name/signature is registered twice in the section *)
Fixpoint nodup_regs (l : list (string * list kind * string)) : bool :=
  match l with
  | [] => true
  | (name, ks, _) :: r =>
      negb (existsb (fun q => match q with (n2, k2, _) => String.eqb name n2 && kinds_eqb ks k2 end) r)
      && nodup_regs r
  end.
Lemma registered_nodup : nodup_regs g_registered = true.
Proof. vm_compute. reflexivity. Qed.

(* conversely every in-section body [resolve] names is registered in the section:
   all kind tuples of length 0..3 over {Number, Interval} (longer ones resolve to number-only
   bodies or to nothing, see run_body_is_source) *)
Fixpoint ktuples (n : nat) : list (list kind) :=
  match n with
  | O => [[]]
  | S n' => flat_map (fun k => map (cons k) (ktuples n')) [KN; KI]
  end.
Definition covered (f : fname) (ks : list kind) : bool :=
  match resolve f ks with
  | Some b =>
      if in_section b then
        match body_impl b with
        | Some s => existsb (fun r => match r with (name, ks', key) =>
                       String.eqb name (fname_str f) && kinds_eqb ks ks' && String.eqb key s end)
                     g_registered
        | None => false
        end
      else true
  | None => true
  end.
Lemma resolve_covered :
  forallb (fun f => forallb (covered f) (ktuples 0 ++ ktuples 1 ++ ktuples 2 ++ ktuples 3)%list) all_fnames = true.
Proof. vm_compute. reflexivity. Qed.

(* make_num_with_interval_op is never registered (so  2 - [1,2]  has no interval signature) *)
Definition mentions (needle hay : string) : bool :=
  (fix go (n : nat) (h : string) : bool :=
     match n with
     | O => false
     | S n' => String.prefix needle h || match h with EmptyString => false | String _ t => go n' t end
     end) (S (String.length hay)) hay.
Lemma num_with_interval_op_unregistered :
  forallb (fun r => match r with (_, _, key) => negb (mentions "make_num_with_interval_op" key) end)
          g_registered = true.
Proof. vm_compute. reflexivity. Qed.

Print Assumptions from_bounds_is_source.
Print Assumptions iv_num_op_is_source.
Print Assumptions num_iv_op_is_source.
Print Assumptions make_interval_is_source.
Print Assumptions contains_is_source.
Print Assumptions has_negative_is_source.
Print Assumptions iv_pow_is_source.
Print Assumptions iv_flip_is_source.
Print Assumptions iv_sqrt_is_source.
Print Assumptions iv_log_is_source.
Print Assumptions iv_ln_is_source.
Print Assumptions iv_log10_is_source.
Print Assumptions iv_log2_is_source.
Print Assumptions iv_abs_is_source.
Print Assumptions cmp_interval_num_is_source.
Print Assumptions cmp_num_interval_is_source.
Print Assumptions cmp_interval_interval_is_source.
Print Assumptions swapped_f_is_source.
Print Assumptions reverse_f_is_source.
Print Assumptions in_interval_is_source.
Print Assumptions iv_eq_is_source.
Print Assumptions iv_neq_is_source.
Print Assumptions iv_min_is_source.
Print Assumptions iv_max_is_source.
Print Assumptions iv_size_is_source.
Print Assumptions iv_plusminus_is_source.
Print Assumptions get_lower_is_source.
Print Assumptions get_upper_is_source.
Print Assumptions run_body_is_source.
Print Assumptions ka_apply_is_source.
Print Assumptions registered_agree.
Print Assumptions registered_nodup.
Print Assumptions resolve_covered.
Print Assumptions num_with_interval_op_unregistered.
