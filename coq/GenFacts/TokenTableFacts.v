(* Facts about the regenerated token table and regex strings (Gen/GenTokens.v), re-proved by
   computation on every run.  If CONST_TOKENS, ALPHA_TOKENS or one of the three patterns is
   edited in tokens.py these lemmas are re-checked against the new values; a lemma that no
   longer holds breaks the build of Properties/C11.v and the harness's search decides. *)
From Coq Require Import NArith List String Lia Bool.
From Ka Require Import Gen.GenTokens Model.Lexer.
Import ListNotations.

(* ---- the pattern strings the automaton of Lexer.read_num / read_token implements ---- *)
Lemma var_regex_pinned :
  var_regex = "[a-zA-Zμ€$£¥][_a-zA-Z0-9μ€$£¥]*"%string.
Proof. reflexivity. Qed.

Lemma based_int_regex_pinned :
  based_int_regex = "0(x|o|b|d)([0-9a-fA-F]+)"%string.
Proof. reflexivity. Qed.

Lemma num_regex_pinned :
  num_regex = "
    (([0-9]+\.?[0-9]*)|([0-9]*\.?[0-9]+))  # Decimal, float or integer
    (e[\-+]?[0-9]+)?                       # Scientific notation"%string
  /\ num_regex_flags = 96%Z.      (* re.VERBOSE | re.UNICODE *)
Proof. split; reflexivity. Qed.

(* the character classes of VAR_REGEX, decoded from the pinned string's own bytes *)
Lemma var_regex_classes :
  forallb (fun c => ident_start c && ident_char c) (utf8_of_string "abzAMZμ€$£¥") = true
  /\ forallb (fun c => negb (ident_start c) && ident_char c) (utf8_of_string "_0189") = true
  /\ forallb (fun c => negb (ident_char c)) (utf8_of_string "@[`{/:é²±. ""#") = true.
Proof. vm_compute. repeat split. Qed.

(* ---- the constant-token table ---- *)
Lemma ctoks_nonempty : all_nonempty gen_ctoks = true.
Proof. vm_compute. reflexivity. Qed.

Lemma atoks_are_the_alphabetic_ctoks : alpha_consistent gen_ctoks gen_atoks = true.
Proof. vm_compute. reflexivity. Qed.

Lemma atoks_subset : forallb (fun t => mem t gen_ctoks) gen_atoks = true.
Proof. vm_compute. reflexivity. Qed.

Lemma ctoks_order_ok : order_ok gen_atoks gen_ctoks = true.
Proof. vm_compute. reflexivity. Qed.

(* The literal reading of the comment in tokens.py ("if token A is a prefix of token B, then
   it comes after B"): no token listed earlier is a proper prefix of a later one.  (Before the
   word "instant" was removed from the table this list was [("in", "instant")].) *)
Lemma ctoks_strict_prefix_order : order_exceptions gen_ctoks = [].
Proof. vm_compute. reflexivity. Qed.

Lemma ctoks_head_is_range : hd_error gen_ctoks = Some [ch_dot; ch_dot].
Proof. vm_compute. reflexivity. Qed.

(* "±" of the byte-string table is the single code point 177 *)
Lemma plusminus_decoded : In [177%N] gen_ctoks.
Proof. vm_compute. tauto. Qed.

(* ---- the two keywords: the scan answers "to" / "in" exactly when no alphabetic character
   follows, and no other table entry matches a text that starts with them ---- *)
Lemma scan_to : forall isalpha rest,
  scan isalpha gen_atoks gen_ctoks (utf8_of_string "to" ++ rest)%list
  = if next_not_alpha isalpha rest then Some (utf8_of_string "to") else None.
Proof.
  intros isalpha rest.
  let t := eval vm_compute in gen_ctoks in change gen_ctoks with t.
  let t := eval vm_compute in gen_atoks in change gen_atoks with t.
  let t := eval vm_compute in (utf8_of_string "to") in change (utf8_of_string "to") with t.
  unfold scan, entry_hit, mem; simpl. destruct (next_not_alpha isalpha rest); reflexivity.
Qed.

Lemma scan_in : forall isalpha rest,
  scan isalpha gen_atoks gen_ctoks (utf8_of_string "in" ++ rest)%list
  = if next_not_alpha isalpha rest then Some (utf8_of_string "in") else None.
Proof.
  intros isalpha rest.
  let t := eval vm_compute in gen_ctoks in change gen_ctoks with t.
  let t := eval vm_compute in gen_atoks in change gen_atoks with t.
  let t := eval vm_compute in (utf8_of_string "in") in change (utf8_of_string "in") with t.
  unfold scan, entry_hit, mem; simpl. destruct (next_not_alpha isalpha rest); reflexivity.
Qed.

Lemma keywords_are_letters :
  forallb is_letter (utf8_of_string "to") = true /\ forallb is_letter (utf8_of_string "in") = true
  /\ mem (utf8_of_string "to") gen_atoks = true /\ mem (utf8_of_string "in") gen_atoks = true.
Proof. vm_compute. repeat split. Qed.

Lemma keywords_nonempty : utf8_of_string "to" <> [] /\ utf8_of_string "in" <> [].
Proof. split; vm_compute; discriminate. Qed.

(* ---- the hypothesis [classes_ok] of the C11 theorems is satisfiable: a concrete triple of
   character classes (ASCII/Latin-1 whitespace; letters, μ and é alphabetic; digits and ²
   numeric) satisfies it at EVERY code point ---- *)

Lemma existsb_eqb_bound : forall (l : list N) (c : N),
  forallb (fun x => (x <? 9000)%N) l = true -> (9000 <= c)%N -> existsb (N.eqb c) l = false.
Proof.
  induction l as [|x l IH]; intros c H L; simpl in *; [reflexivity|].
  apply andb_prop in H. destruct H as [Hx Hl]. apply N.ltb_lt in Hx.
  rewrite (IH c Hl L). replace (c =? x)%N with false; [reflexivity|].
  symmetry. apply N.eqb_neq. intro E. subst. apply N.lt_nge in Hx. contradiction.
Qed.

Lemma ctoks_chars_small : forallb (forallb (fun x => (x <? 9000)%N)) gen_ctoks = true.
Proof. vm_compute. reflexivity. Qed.

Lemma classes_small :
  forallb (class_ok_b w_space w_alpha w_numeric gen_ctoks) (map N.of_nat (seq 0 (N.to_nat 9000))) = true.
Proof. vm_compute. reflexivity. Qed.

Lemma classes_ok_witness : classes_ok w_space w_alpha w_numeric.
Proof.
  intro c. destruct (N.ltb c 9000) eqn:L.
  - apply N.ltb_lt in L. pose proof classes_small as H. rewrite forallb_forall in H. apply H.
    apply in_map_iff. exists (N.to_nat c). split; [apply N2Nat.id|].
    apply in_seq. lia.
  - apply N.ltb_ge in L.
    assert (Hs : w_space c = false) by (apply existsb_eqb_bound; [reflexivity|exact L]).
    assert (Ht : existsb (existsb (N.eqb c)) gen_ctoks = false).
    { pose proof ctoks_chars_small as H. induction gen_ctoks as [|t tl IH]; [reflexivity|].
      simpl in *. apply andb_prop in H. destruct H as [H1 H2].
      rewrite (existsb_eqb_bound t c H1 L). exact (IH H2). }
    assert (F : forall k, (k < 9000)%N -> (c <=? k)%N = false /\ (c =? k)%N = false).
    { intros k Hk. split; [apply N.leb_gt|apply N.eqb_neq; intro E; subst c; apply N.lt_nge in Hk; contradiction].
      eapply N.lt_le_trans; [exact Hk|exact L]. }
    unfold class_ok_b, sig_char. rewrite Hs, Ht.
    unfold w_alpha, w_numeric, ident_char, ident_start, is_letter, is_lower, is_upper, is_digit, is_currency,
           ch_quote, ch_hash, ch_dot, ch_plus, ch_minus.
    repeat match goal with
           | |- context [(c <=? ?k)%N] => rewrite (proj1 (F k eq_refl))
           | |- context [(c =? ?k)%N] => rewrite (proj2 (F k eq_refl))
           end.
    rewrite ?andb_false_r. reflexivity.
Qed.
