(* Facts about the regenerated token table and regex strings (Gen/GenTokens.v), re-proved by
   computation on every run.  If CONST_TOKENS, ALPHA_TOKENS or one of the three patterns is
   edited in tokens.py these lemmas are re-checked against the new values; a lemma that no
   longer holds breaks the build of Properties/C11.v and the harness's search decides. *)
From Coq Require Import NArith List String.
From Ka Require Import Gen.GenTokens Model.Lexer.
Import ListNotations.

(* ---- the pattern strings the automaton of Lexer.read_num / read_token implements ---- *)
Lemma var_regex_pinned :
  var_regex = "[a-zA-Zμ€$£¥][_a-zA-Z0-9μ€$£¥]*"%string.
Proof. reflexivity. Qed.

Lemma based_int_regex_pinned :
  based_int_regex = "0(x|o|b|d)([0-9a-fA-F]+)"%string.
Proof. reflexivity. Qed.

Lemma num_regex_pinned :
  num_regex = "
    (([0-9]+\.?[0-9]*)|([0-9]*\.?[0-9]+))  # Decimal, float or integer
    (e[\-+]?[0-9]+)?                       # Scientific notation"%string
  /\ num_regex_flags = 96%Z.      (* re.VERBOSE | re.UNICODE *)
Proof. split; reflexivity. Qed.

(* the character classes of VAR_REGEX, decoded from the pinned string's own bytes *)
Lemma var_regex_classes :
  forallb (fun c => ident_start c && ident_char c) (utf8_of_string "abzAMZμ€$£¥") = true
  /\ forallb (fun c => negb (ident_start c) && ident_char c) (utf8_of_string "_0189") = true
  /\ forallb (fun c => negb (ident_char c)) (utf8_of_string "@[`{/:é²±. ""#") = true.
Proof. vm_compute. repeat split. Qed.

(* ---- the constant-token table ---- *)
Lemma ctoks_nonempty : all_nonempty gen_ctoks = true.
Proof. vm_compute. reflexivity. Qed.

Lemma atoks_are_the_alphabetic_ctoks : alpha_consistent gen_ctoks gen_atoks = true.
Proof. vm_compute. reflexivity. Qed.

Lemma atoks_subset : forallb (fun t => mem t gen_ctoks) gen_atoks = true.
Proof. vm_compute. reflexivity. Qed.

Lemma ctoks_order_ok : order_ok gen_atoks gen_ctoks = true.
Proof. vm_compute. reflexivity. Qed.

(* The literal reading of the comment in tokens.py ("if token A is a prefix of token B, then
   it comes after B"): no token listed earlier is a proper prefix of a later one.  (Before the
   word "instant" was removed from the table this list was [("in", "instant")].) *)
Lemma ctoks_strict_prefix_order : order_exceptions gen_ctoks = [].
Proof. vm_compute. reflexivity. Qed.

Lemma ctoks_head_is_range : hd_error gen_ctoks = Some [ch_dot; ch_dot].
Proof. vm_compute. reflexivity. Qed.

(* "±" of the byte-string table is the single code point 177 *)
Lemma plusminus_decoded : In [177%N] gen_ctoks.
Proof. vm_compute. tauto. Qed.
