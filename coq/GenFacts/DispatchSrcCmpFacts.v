(* DispatchSrcCmpFacts.v — the generic comparison registrations of ka/functions.py, for C09.

   Gen/GenDispatchSrc.v (harness/trans_dispatch.py, regenerated on every run from the Python AST)
   holds the translation of intify (the wrapper that turns a Python comparison into the NUMBER 1 or
   0) and of the two lambdas registered for (Any, Any) under == and != (functions.py:264-267: values
   with no more specific equality are unequal).  Facts:

   * intify_is_source / intify_zero_one: whatever the wrapped callable returns, the wrapper returns
     of_int 1 when it is true and of_int 0 otherwise, and raises what the callable raises;
   * any_eq_is_source / any_ne_is_source: the (Any, Any) body of == is the constant 0, that of != the
     constant 1 (so != is 1 - == there too);
   * on the LIVE registry (Gen/GenFunctions.v): the (Any, Any) entries are exactly those two, with
     the keys of the translated lambdas (any_fallbacks_live); Any is the top of the lattice and every
     value is an instance of it (any_is_top), so == and != never reject a pair of values
     (eq_ne_total) and the catch-all is chosen for == exactly when it is chosen for !=
     (fallback_coherent); the four ordering operators have no catch-all (no_ordering_fallback). *)
From Coq Require Import Arith Lia List String Bool ZArith.
From Ka Require Import Model.Dispatch Gen.GenDispatchSrc.
Import ListNotations.
Local Open Scope string_scope.
Local Open Scope list_scope.
Local Open Scope nat_scope.

(* ------------------------------------------------------------------ intify *)
Theorem intify_is_source W f x y :
  dbind (call W f [x; y] []) (fun r => DOk (of_int W (if truthy W r then 1 else 0)%Z))
  = g_intify_f_new W f x y.
Proof.
  unfold g_intify_f_new. destruct (call W f [x; y] []) as [r|e]; cbn [dbind]; [|reflexivity].
  destruct (truthy W r); reflexivity.
Qed.

Theorem intify_zero_one W f x y v :
  g_intify_f_new W f x y = DOk v -> v = of_int W 0%Z \/ v = of_int W 1%Z.
Proof.
  rewrite <- intify_is_source. destruct (call W f [x; y] []) as [r|e]; cbn [dbind]; [|discriminate].
  intro E; injection E as <-. destruct (truthy W r); auto.
Qed.

Theorem intify_raises W f x y e :
  call W f [x; y] [] = DRaise e -> g_intify_f_new W f x y = DRaise e.
Proof. intro E. rewrite <- intify_is_source, E. reflexivity. Qed.

(* the value intify(f) denotes: the key dump_live.impl_key prints for the closure *)
Theorem intify_key_is_source W f :
  ("ka.functions.intify.<locals>.f_new[f=" ++ f ++ "]")%string = g_intify W f.
Proof.
  unfold g_intify, py_closure_key. reflexivity.
Qed.

(* ------------------------------------------------------------------ the (Any, Any) lambdas *)
Definition fallback_key (name : string) : option string :=
  match find (fun r => String.eqb (fst (fst r)) name) g_any_fallback_keys with
  | Some r => Some (snd r)
  | None => None
  end.

Theorem any_eq_is_source W :
  exists k f, fallback_key "==" = Some k /\ g_any_fallback_body W k = Some f
              /\ forall x y, f x y = DOk (of_int W 0%Z).
Proof. eexists. eexists. split; [reflexivity|]. split; [reflexivity|]. intros x y. reflexivity. Qed.

Theorem any_ne_is_source W :
  exists k f, fallback_key "!=" = Some k /\ g_any_fallback_body W k = Some f
              /\ forall x y, f x y = DOk (of_int W 1%Z).
Proof. eexists. eexists. split; [reflexivity|]. split; [reflexivity|]. intros x y. reflexivity. Qed.

Theorem any_fallback_names : map (fun r => fst (fst r)) g_any_fallback_keys = ["=="; "!="].
Proof. reflexivity. Qed.

(* ------------------------------------------------------------------ the live registry *)
Definition any_ix : nat := type_ix "Any".
Definition all_any (s : gsig) : bool :=
  match g_args s with [] => false | l => forallb (Nat.eqb any_ix) l end.
Definition nat_list_eqb (a b : list nat) : bool :=
  Nat.eqb (List.length a) (List.length b) && forallb (fun p => Nat.eqb (fst p) (snd p)) (combine a b).

(* every translated lambda is registered under its name with signature (Any, Any) and its key;
   every registered all-Any signature is one of them *)
Definition any_fallbacks_live_ok : bool :=
  forallb (fun r => match assoc (fst (fst r)) registry with
                    | Some l => existsb (fun s => String.eqb (g_impl s) (snd r)
                                                   && nat_list_eqb (g_args s) (map ix (snd (fst r)))) l
                    | None => false
                    end) g_any_fallback_keys
  && forallb (fun e => forallb (fun s => implb (all_any s)
                                           (existsb (fun r => String.eqb (fst (fst r)) (fst e)
                                                               && String.eqb (snd r) (g_impl s)) g_any_fallback_keys))
                               (snd e)) registry.
Lemma any_fallbacks_live : any_fallbacks_live_ok = true.
Proof. vm_compute. reflexivity. Qed.

Definition ntypes : nat := List.length type_names.
Definition any_is_top_ok : bool :=
  Nat.ltb any_ix ntypes
  && forallb (fun t => subcls t any_ix) (seq 0 ntypes)
  && forallb (fun t => implb (subcls any_ix t) (Nat.eqb t any_ix)) (seq 0 ntypes)
  && forallb (fun k => isinst k any_ix) (seq 0 nkinds).
Lemma any_is_top : any_is_top_ok = true.
Proof. vm_compute. reflexivity. Qed.

Definition pairs : list (list nat) := tuples 2.
Definition runs (name : string) (ks : list nat) : option string :=
  match dispatch_decision name ks [] with Run impl _ => Some impl | Reject _ => None end.
Definition is_fallback (name : string) (ks : list nat) : bool :=
  match runs name ks, fallback_key name with
  | Some impl, Some k => String.eqb impl k
  | _, _ => false
  end.

(* == and != accept every pair of values of the classes the evaluator can produce *)
Definition eq_ne_total_ok : bool :=
  forallb (fun ks => match runs "==" ks, runs "!=" ks with Some _, Some _ => true | _, _ => false end) pairs.
Lemma eq_ne_total : eq_ne_total_ok = true.
Proof. vm_compute. reflexivity. Qed.

(* the catch-all answers == for a pair of classes exactly when it answers != for it *)
Definition fallback_coherent_ok : bool :=
  forallb (fun ks => Bool.eqb (is_fallback "==" ks) (is_fallback "!=" ks)) pairs
  && existsb (is_fallback "==") pairs.
Lemma fallback_coherent : fallback_coherent_ok = true.
Proof. vm_compute. reflexivity. Qed.

(* < <= > >= have no (Any, Any) signature: an uncomparable pair is rejected, not answered *)
Definition no_ordering_fallback_ok : bool :=
  forallb (fun name => match assoc name registry with
                       | Some l => negb (existsb all_any l)
                       | None => false
                       end) ["<"; "<="; ">"; ">="].
Lemma no_ordering_fallback : no_ordering_fallback_ok = true.
Proof. vm_compute. reflexivity. Qed.

(* lifted to every pair of kinds *)
Theorem eq_ne_never_reject k1 k2 : k1 < nkinds -> k2 < nkinds ->
  (exists impl, runs "==" [k1; k2] = Some impl) /\ (exists impl, runs "!=" [k1; k2] = Some impl).
Proof.
  intros H1 H2. pose proof eq_ne_total as T. unfold eq_ne_total_ok in T. rewrite forallb_forall in T.
  assert (I : In [k1; k2] pairs).
  { unfold pairs. cbn [tuples]. apply in_flat_map. exists k1. split; [apply in_seq; lia|].
    apply in_map. apply in_flat_map. exists k2. split; [apply in_seq; lia|]. left. reflexivity. }
  specialize (T _ I). destruct (runs "==" [k1; k2]) as [a|]; [|discriminate].
  destruct (runs "!=" [k1; k2]) as [b|]; [|discriminate]. split; eexists; reflexivity.
Qed.

Print Assumptions intify_is_source.
Print Assumptions intify_zero_one.
Print Assumptions intify_raises.
Print Assumptions intify_key_is_source.
Print Assumptions any_eq_is_source.
Print Assumptions any_ne_is_source.
Print Assumptions any_fallback_names.
Print Assumptions any_fallbacks_live.
Print Assumptions any_is_top.
Print Assumptions eq_ne_total.
Print Assumptions fallback_coherent.
Print Assumptions no_ordering_fallback.
Print Assumptions eq_ne_never_reject.
