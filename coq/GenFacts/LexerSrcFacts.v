(* The hand-written lexer of Model/Lexer.v IS the source's: Gen/GenLexerSrc.v is regenerated from the Python AST
   of src/ka/tokens.py on every run (harness/trans_lexer.py) and proved equal to the model here, function by
   function and for ALL inputs.  A change to tokenise / skip_whitespace / read_token / read_string / read_instant /
   read_num_token breaks one of these lemmas (or leaves GenLexerSrc without the definition: fail closed).

   The source works on (string, index) pairs, the model on the suffix that starts at the index; the lemmas say
     g_f i s  =  <the model's function> (skipn i s), re-indexed at i
   and the first part of this file is the bridge between the two views (idx / Nat.ltb / slice against skipn).

   FULL EQUALITIES (all inputs): skip_whitespace, read_string, read_instant, read_num_token, read_token (for an index
   inside the string, the only way tokenise calls it), tokenise.
   DATA FACTS: the three pattern strings and CONST_TOKENS of the AST against the live tables of Gen/GenTokens.v, the tag
   strings, the keyword names of the Token(...) constructions. *)
From Coq Require Import NArith ZArith QArith List Bool Lia String.
From Ka Require Import Model.Lexer Gen.GenTokens Gen.GenLexerSrc Proofs.LexerProofs GenFacts.TokenTableFacts.
Import ListNotations.
Local Open Scope list_scope.
Local Open Scope nat_scope.

(* ================================================================== data read off the AST *)
Lemma var_regex_is_source : g_var_regex = var_regex /\ g_var_regex_flags = [].
Proof. split; reflexivity. Qed.
Lemma based_int_regex_is_source : g_based_int_regex = based_int_regex /\ g_based_int_regex_flags = [].
Proof. split; reflexivity. Qed.
(* num_regex_flags = 96 = re.VERBOSE | re.UNICODE is pinned in TokenTableFacts.v *)
Lemma num_regex_is_source : g_num_regex = num_regex /\ g_num_regex_flags = ["VERBOSE"%string].
Proof. split; reflexivity. Qed.
(* the list display CONST_TOKENS = [Tokens.RANGE_SEPARATOR, ...] of the AST, resolved through class Tokens, is the
   live table, in the same order *)
Lemma const_tokens_is_source : g_const_tokens = const_tokens.
Proof. reflexivity. Qed.

Definition pair_eqb (p q : string * string) : bool :=
  String.eqb (fst p) (fst q) && String.eqb (snd p) (snd q).
(* Tokens.NUM / STRING / INSTANT / VAR of the AST are the live tag strings, and none of them is a constant token
   (so the four tags and the constant-token tags cannot be confused) *)
Lemma tag_strings_live :
  forallb (fun p => existsb (pair_eqb p) token_tags) g_tag_strings = true
  /\ forallb (fun p => negb (existsb (String.eqb (snd p)) const_tokens)) g_tag_strings = true
  /\ map fst g_tag_strings = ["NUM"; "STRING"; "INSTANT"; "VAR"]%string.
Proof. vm_compute. repeat split. Qed.
(* every Token(...) construction of the translated functions stores its value under the key the rest of Ka reads:
   value= for numbers, strings and instants, name= for identifiers, nothing for constant tokens *)
Lemma token_ctors_ok :
  forallb (fun p => existsb (pair_eqb p)
                      [("NUM", "value"); ("STRING", "value"); ("INSTANT", "value"); ("VAR", "name"); ("const", "")]%string)
          g_token_ctors = true
  /\ forallb (fun t => existsb (fun p => String.eqb (fst p) t) g_token_ctors) ["NUM"; "STRING"; "INSTANT"; "VAR"; "const"]%string = true.
Proof. vm_compute. split; reflexivity. Qed.

(* ================================================================== index view against suffix view *)
Lemma nth_error_skipn : forall (s : text) i, nth_error s i = hd_error (skipn i s).
Proof.
  induction s as [|c s IH]; intro i; destruct i; simpl; try reflexivity. apply IH.
Qed.
Lemma idx_skipn : forall s i,
  idx s i = match skipn i s with c :: _ => POk c | [] => PRaise XIndexError end.
Proof. intros s i. unfold idx. rewrite nth_error_skipn. destruct (skipn i s); reflexivity. Qed.
Lemma skipn_len : forall (s : text) i, List.length (skipn i s) = List.length s - i.
Proof. intros; apply skipn_length. Qed.
Lemma ltb_skipn : forall (s : text) i,
  Nat.ltb i (List.length s) = match skipn i s with [] => false | _ :: _ => true end.
Proof.
  intros s i. pose proof (skipn_len s i) as L. destruct (skipn i s); simpl in L.
  - apply Nat.ltb_ge. lia.
  - apply Nat.ltb_lt. lia.
Qed.
Lemma leb_skipn : forall (s : text) i,
  Nat.leb (List.length s) i = match skipn i s with [] => true | _ :: _ => false end.
Proof.
  intros s i. pose proof (skipn_len s i) as L. destruct (skipn i s); simpl in L.
  - apply Nat.leb_le. lia.
  - apply Nat.leb_gt. lia.
Qed.
Lemma skipn_add : forall (s : text) i n, skipn (i + n) s = skipn n (skipn i s).
Proof.
  induction s as [|c s IH]; intros i n.
  - rewrite !skipn_nil. reflexivity.
  - destruct i; simpl; [reflexivity|apply IH].
Qed.
Lemma skipn_plus1 : forall (s : text) i, skipn (i + 1) s = tl (skipn i s).
Proof. intros. rewrite skipn_add. destruct (skipn i s); reflexivity. Qed.
Lemma skipn_S_tl : forall (s : text) i, skipn (S i) s = tl (skipn i s).
Proof. intros. rewrite <- skipn_plus1. f_equal. lia. Qed.
Lemma skipn_cons_next : forall (s : text) i c t, skipn i s = c :: t -> skipn (i + 1) s = t.
Proof. intros s i c t E. rewrite skipn_plus1, E. reflexivity. Qed.
Lemma skipn_nil_next : forall (s : text) i n, skipn i s = [] -> skipn (i + n) s = [].
Proof. intros s i n E. rewrite skipn_add, E. apply skipn_nil. Qed.
Lemma slice_from : forall (s : text) a k, slice s a (a + k) = firstn k (skipn a s).
Proof. intros. unfold slice. f_equal. lia. Qed.
Lemma fuel_enough : forall (s : text) i, List.length (skipn i s) < S (List.length s).
Proof. intros. rewrite skipn_len. lia. Qed.

(* ================================================================== the number conversions of the mapping *)
Lemma dec_val_nonneg : forall ds, (0 <= dec_val ds)%Z.
Proof.
  intro ds. unfold dec_val.
  assert (G : forall l acc, (0 <= acc)%Z ->
              (0 <= fold_left (fun a c => (a * 10 + Z.of_N (c - 48))%Z) l acc)%Z).
  { induction l as [|c l IH]; intros acc Ha; simpl; [exact Ha|]. apply IH. lia. }
  apply G. lia.
Qed.

Lemma digit_not_sign : forall c, is_digit c = true -> (c =? ch_minus)%N = false /\ (c =? ch_plus)%N = false.
Proof.
  intros c H. apply digit_range in H. unfold ch_minus, ch_plus. split; apply N.eqb_neq; lia.
Qed.

Lemma digits_ok_true : forall ds, ds <> [] -> forallb is_digit ds = true -> digits_ok ds = true.
Proof. intros [|c t] Hn H; [congruence|]. unfold digits_ok. rewrite H. reflexivity. Qed.

Lemma py_int_digits : forall ds, ds <> [] -> forallb is_digit ds = true -> py_int ds = POk (dec_val ds).
Proof.
  intros ds Hn H. pose proof (digits_ok_true ds Hn H) as Ok. destruct ds as [|c t]; [congruence|].
  assert (Dc : is_digit c = true) by (simpl in H; apply andb_true_iff in H; tauto).
  destruct (digit_not_sign c Dc) as [E1 E2]. unfold py_int. rewrite E1, E2, Ok. reflexivity.
Qed.

(* int() of the exponent group without its "e": an optional sign and digits *)
Lemma py_int_signed : forall sg es neg, es <> [] -> forallb is_digit es = true ->
  ((sg = [] /\ neg = false) \/ (sg = [ch_plus] /\ neg = false) \/ (sg = [ch_minus] /\ neg = true)) ->
  py_int (sg ++ es) = POk (if neg then (- dec_val es)%Z else dec_val es).
Proof.
  intros sg es neg Hn H [[-> ->]|[[-> ->]|[-> ->]]]; simpl app.
  - apply py_int_digits; assumption.
  - unfold py_int. simpl. rewrite (digits_ok_true es Hn H). reflexivity.
  - unfold py_int. simpl. rewrite (digits_ok_true es Hn H). reflexivity.
Qed.

Lemma hex_val_lt16 : forall c, is_hex c = true -> (hex_val c <? 16)%Z = true.
Proof.
  intros c H. unfold is_hex in H. unfold hex_val. apply Z.ltb_lt.
  destruct (is_digit c) eqn:D.
  - apply digit_range in D. lia.
  - simpl in H. destruct ((97 <=? c) && (c <=? 102))%N eqn:L.
    + apply andb_true_iff in L. destruct L as [L1 L2]. apply N.leb_le in L1, L2. lia.
    + simpl in H. apply andb_true_iff in H. destruct H as [L1 L2]. apply N.leb_le in L1, L2. lia.
Qed.

Lemma py_int_base_char : forall c, is_hex c = true -> py_int_base [c] 16 = POk (hex_val c).
Proof.
  intros c H. unfold py_int_base. simpl. rewrite H. simpl. rewrite (hex_val_lt16 c H). reflexivity.
Qed.

(* the digit check of read_num_token: any(int(c, 16) >= base for c in digits) *)
Lemma any_digit_check : forall base hs, forallb is_hex hs = true ->
  anyM (fun c => pdo t <- py_int_base [c] 16; POk (Z.leb base t)) hs
  = POk (existsb (fun c => Z.leb base (hex_val c)) hs).
Proof.
  intros base hs. induction hs as [|c hs IH]; intro H; [reflexivity|].
  simpl in H. apply andb_true_iff in H. destruct H as [Hc Hs].
  cbn [anyM existsb]. rewrite (py_int_base_char c Hc). cbn [pbind].
  destruct (Z.leb base (hex_val c)); [reflexivity|]. simpl. apply IH, Hs.
Qed.

Lemma exists_bad_digit : forall base hs,
  existsb (fun c => Z.leb base (hex_val c)) hs = negb (forallb (fun c => (hex_val c <? base)%Z) hs).
Proof.
  intros base hs. induction hs as [|c hs IH]; [reflexivity|]. simpl. rewrite IH.
  rewrite negb_andb. f_equal. rewrite Z.ltb_antisym. rewrite negb_involutive. reflexivity.
Qed.

Lemma py_int_base_hex : forall hs b, hs <> [] -> forallb is_hex hs = true ->
  py_int_base hs b = match horner b hs 0 with Some z => POk z | None => PRaise XValueError end.
Proof.
  intros hs b Hn H. unfold py_int_base. rewrite H. destruct hs; [congruence|]. reflexivity.
Qed.

(* ================================================================== read_string, read_instant *)
(* ---------------------------------------------------------------- read_string: str_end *)
(* the string branch of the model's read_token, as a token at index i *)
Definition m_read_string (i : nat) (t : text) : pres token :=
  match str_end t with
  | Some k => POk (mkTok TStr i (i + (k + 2)) (VText (firstn k t)))
  | None => PRaise (XLex UnclosedStringError i)
  end.
Definition m_read_instant (i : nat) (t : text) : pres token :=
  match inst_end t with
  | Some k => POk (mkTok TInst i (i + (k + 2)) (VText (firstn k t)))
  | None => PRaise (XLex UnclosedInstantError i)
  end.

(* the loop at index j: the closing quote is str_end (suffix at j) further on; the error carries the index i of
   the OPENING quote, the token runs from i to one past the closing quote, its value is s[i+1 : closing] *)
Lemma read_string_loop : forall fuel i s j, List.length (skipn j s) < fuel ->
  g_read_string_while1 fuel i s j =
  match str_end (skipn j s) with
  | Some k => POk (mkTok TStr i (j + k + 1) (VText (slice s (i + 1) (j + k))))
  | None => PRaise (XLex UnclosedStringError i)
  end.
Proof.
  induction fuel as [|f IH]; intros i s j L; [lia|].
  cbn [g_read_string_while1]. rewrite ltb_skipn, !idx_skipn, ltb_skipn.
  destruct (skipn j s) as [|c t] eqn:E; [reflexivity|].
  rewrite (skipn_cons_next _ _ _ _ E). cbn [pbind str_end].
  change ch_bslash with 92%N. change ch_quote with 34%N.
  destruct (c =? 92)%N eqn:Eb.
  - assert (Eq : (c =? 34)%N = false) by (apply N.eqb_eq in Eb; subst c; reflexivity).
    destruct t as [|c2 t2].
    + cbn [pbind]. rewrite Eq. rewrite IH; rewrite (skipn_cons_next _ _ _ _ E); [reflexivity|simpl in *; lia].
    + cbn [pbind]. destruct (c2 =? 34)%N eqn:E2.
      * rewrite IH; replace (j + 2) with (j + 1 + 1) by lia;
          rewrite (skipn_cons_next _ (j + 1) c2 t2 (skipn_cons_next _ _ _ _ E)); [|simpl in *; lia].
        destruct (str_end t2) as [k|]; simpl; [|reflexivity].
        replace (j + 1 + 1 + k + 1) with (j + S (S k) + 1) by lia.
        replace (j + 1 + 1 + k) with (j + S (S k)) by lia. reflexivity.
      * rewrite Eq. rewrite IH; rewrite (skipn_cons_next _ _ _ _ E); [|simpl in *; lia].
        destruct (str_end (c2 :: t2)) as [k|]; simpl; [|reflexivity].
        replace (j + 1 + k + 1) with (j + S k + 1) by lia.
        replace (j + 1 + k) with (j + S k) by lia. reflexivity.
  - cbn [pbind]. destruct (c =? 34)%N eqn:Eq.
    + rewrite !Nat.add_0_r. reflexivity.
    + rewrite IH; rewrite (skipn_cons_next _ _ _ _ E); [|simpl in *; lia].
      destruct (str_end t) as [k|]; simpl; [|reflexivity].
      replace (j + 1 + k + 1) with (j + S k + 1) by lia.
      replace (j + 1 + k) with (j + S k) by lia. reflexivity.
Qed.

Lemma read_string_is_source : forall i s,
  g_read_string i s = m_read_string i (skipn (S i) s).
Proof.
  intros i s. unfold g_read_string, m_read_string. cbv zeta.
  rewrite read_string_loop by apply fuel_enough.
  replace (S i) with (i + 1) by lia.
  destruct (str_end (skipn (i + 1) s)) as [k|]; [|reflexivity].
  rewrite slice_from. f_equal. f_equal. lia.
Qed.

(* ---------------------------------------------------------------- read_instant: inst_end *)
Lemma read_instant_loop : forall fuel i s j, List.length (skipn j s) < fuel ->
  g_read_instant_while1 fuel i s j =
  match inst_end (skipn j s) with
  | Some k => POk (mkTok TInst i (j + k + 1) (VText (slice s (i + 1) (j + k))))
  | None => PRaise (XLex UnclosedInstantError i)
  end.
Proof.
  induction fuel as [|f IH]; intros i s j L; [lia|].
  cbn [g_read_instant_while1]. rewrite ltb_skipn, !idx_skipn.
  destruct (skipn j s) as [|c t] eqn:E; [reflexivity|].
  cbn [pbind inst_end]. change ch_hash with 35%N.
  destruct (c =? 35)%N eqn:Eh.
  - rewrite !Nat.add_0_r. reflexivity.
  - rewrite IH; rewrite (skipn_cons_next _ _ _ _ E); [|simpl in *; lia].
    destruct (inst_end t) as [k|]; simpl; [|reflexivity].
    replace (j + 1 + k + 1) with (j + S k + 1) by lia.
    replace (j + 1 + k) with (j + S k) by lia. reflexivity.
Qed.

Lemma read_instant_is_source : forall i s,
  g_read_instant i s = m_read_instant i (skipn (S i) s).
Proof.
  intros i s. unfold g_read_instant, m_read_instant. cbv zeta.
  rewrite read_instant_loop by apply fuel_enough.
  replace (S i) with (i + 1) by lia.
  destruct (inst_end (skipn (i + 1) s)) as [k|]; [|reflexivity].
  rewrite slice_from. f_equal. f_equal. lia.
Qed.

(* ================================================================== read_num_token *)
(* the model's read_num on the suffix, as a token (or the error) at index i *)
Definition tok_of_nres (i : nat) (r : nres) : pres token :=
  match r with
  | NOk n v => POk (mkTok TNum i (i + n) (VLit v))
  | NBad => PRaise (XLex BadNumberError i)
  end.

(* ---- based literals: BASED_INT_REGEX matched *)
Lemma read_num_based_src : forall i s, based_window (skipn i s) = true ->
  g_read_num_token i s = tok_of_nres i (read_based (skipn i s)).
Proof.
  intros i s W. unfold g_read_num_token, based_match. cbv zeta. rewrite W.
  destruct (based_window_inv _ W) as (bc & hs & R & E & Hb & Hn & Hh & Hr).
  rewrite E.
  destruct (takew_app_stop is_hex hs R Hh Hr) as [Et _]. rewrite Et.
  destruct (read_based_of_parts bc hs R Hb Hn Hh Hr) as [_ Erb]. rewrite Erb.
  cbn [grp m_groups nth_error pbind ot_truthy ot_eqb text_eqb m_start m_end need_text].
  rewrite !andb_true_r, (N.eqb_sym 98 bc), (N.eqb_sym 111 bc), (N.eqb_sym 120 bc). unfold base_of.
  destruct (bc =? 98)%N; [|destruct (bc =? 111)%N; [|destruct (bc =? 120)%N]];
  (rewrite (any_digit_check _ hs Hh), exists_bad_digit, (py_int_base_hex hs _ Hn Hh); cbn [pbind];
   match goal with |- context [forallb ?f hs] => destruct (forallb f hs) eqn:F end;
   [rewrite (horner_ok _ _ _ F)|rewrite (horner_bad _ _ _ F)]; reflexivity).
Qed.

(* ---- decimal literals: NUM_REGEX; the parts of the match are the model's p_d1 / p_dot / p_d2 / p_r3 *)
Lemma num_match_eq : forall s i, num_match s i =
  let r := skipn i s in
  if is_nil (p_d1 r) && is_nil (p_d2 r) then None
  else
    let g1 := p_d1 r ++ dotl (p_dot r) ++ p_d2 r in
    let g4 := match exp_match (p_r3 r) with Some (_, _, k) => Some (firstn k (p_r3 r)) | None => None end in
    let g0 := g1 ++ match g4 with Some t => t | None => [] end in
    Some (mkM i (i + List.length g0)
              [Some g0; Some g1; (if is_nil (p_d1 r) then None else Some g1);
               (if is_nil (p_d1 r) then Some g1 else None); g4]).
Proof. reflexivity. Qed.


Lemma last_app_ne : forall (a b : text) d, b <> [] -> last (a ++ b) d = last b d.
Proof.
  induction a as [|x a IH]; intros b d Hb; [reflexivity|].
  simpl app. specialize (IH b d Hb). destruct (a ++ b) eqn:E.
  - destruct a; destruct b; simpl in E; congruence.
  - cbn [last]. exact IH.
Qed.
Lemma last_forallb : forall (p : N -> bool) (l : text) d, l <> [] -> forallb p l = true -> p (last l d) = true.
Proof.
  induction l as [|x l IH]; intros d Hn H; [congruence|].
  simpl in H. apply andb_true_iff in H. destruct H as [Hx Hl].
  destruct l as [|y l]; [exact Hx|]. cbn [last]. apply IH; [discriminate|exact Hl].
Qed.
Lemma digit_not_dot_b : forall c, is_digit c = true -> (c =? 46)%N = false.
Proof. intros c H. apply N.eqb_neq. apply (digit_not_dot c H). Qed.
Lemma no_dot_in_digits : forall ds, forallb is_digit ds = true -> existsb (N.eqb 46) ds = false.
Proof.
  induction ds as [|c ds IH]; intro H; [reflexivity|]. simpl in H. apply andb_true_iff in H. destruct H as [Hc Hs].
  cbn [existsb]. rewrite N.eqb_sym, (digit_not_dot_b c Hc), (IH Hs). reflexivity.
Qed.
Lemma dot_in_g1 : forall D1 DOT D2, forallb is_digit D1 = true -> forallb is_digit D2 = true ->
  existsb (N.eqb 46) (D1 ++ dotl DOT ++ D2) = DOT.
Proof.
  intros D1 DOT D2 H1 H2. rewrite !existsb_app, (no_dot_in_digits _ H1), (no_dot_in_digits _ H2).
  destruct DOT; reflexivity.
Qed.
Lemma idx_last_ne : forall t, t <> [] -> idx_last t = POk (last t 0%N).
Proof. intros [|c t] H; [congruence|reflexivity]. Qed.

(* the text of the exponent group *)
Lemma exp_text : forall R3 neg es k, exp_match R3 = Some (neg, es, k) ->
  exists sg, firstn k R3 = ch_e :: sg ++ es /\ es <> [] /\ forallb is_digit es = true
    /\ ((sg = [] /\ neg = false) \/ (sg = [ch_plus] /\ neg = false) \/ (sg = [ch_minus] /\ neg = true))
    /\ skipn k R3 = skipn k R3 /\ k = List.length (ch_e :: sg ++ es).
Proof.
  intros R3 neg es k H. destruct (exp_match_some _ _ _ _ H) as (Hn & Hd & Hk & Hh & sg & E & Ek & Hs).
  exists sg. split.
  - remember (skipn k R3) as Y eqn:EY. rewrite E.
    replace (ch_e :: sg ++ es ++ Y) with ((ch_e :: sg ++ es) ++ Y) by (simpl; rewrite <- app_assoc; reflexivity).
    replace k with (List.length (ch_e :: sg ++ es)) by (simpl; rewrite app_length; lia).
    apply firstn_app_exact.
  - repeat split; try assumption. simpl. rewrite app_length. lia.
Qed.

Lemma py_float_eq : forall t, py_float t =
  if is_nil (p_d1 t) && is_nil (p_d2 t) then PRaise XValueError
  else match p_r3 t with
       | [] => POk (flt_of (mantissa (p_d1 t) (p_d2 t)))
       | _ :: _ =>
           match exp_match (p_r3 t) with
           | Some (neg, es, k) =>
               if Nat.eqb k (List.length (p_r3 t))
               then POk (flt_of (if neg then (mantissa (p_d1 t) (p_d2 t) / inject_Z (10 ^ dec_val es))%Q
                                 else (mantissa (p_d1 t) (p_d2 t) * inject_Z (10 ^ dec_val es))%Q))
               else PRaise XValueError
           | None => PRaise XValueError
           end
       end.
Proof. reflexivity. Qed.

(* float() of a spelling without exponent *)
Lemma py_float_plain : forall D1 DOT D2, forallb is_digit D1 = true -> forallb is_digit D2 = true ->
  is_nil D1 && is_nil D2 = false -> (DOT = false -> D2 = []) ->
  py_float (D1 ++ dotl DOT ++ D2) = POk (flt_of (mantissa D1 D2)).
Proof.
  intros D1 DOT D2 H1 H2 Hn H4.
  destruct (dec_parts_unique D1 DOT D2 [] H1 H2 I (fun E => conj (H4 E) eq_refl)) as (E1 & E2 & E3 & E4).
  cbv zeta in E1, E2, E3, E4. rewrite app_nil_r in E1, E2, E3, E4.
  rewrite py_float_eq, E1, E3, E4, Hn. reflexivity.
Qed.
(* float() of a spelling with exponent *)
Lemma py_float_exp : forall D1 DOT D2 sg es neg, forallb is_digit D1 = true -> forallb is_digit D2 = true ->
  is_nil D1 && is_nil D2 = false -> (DOT = false -> D2 = []) ->
  es <> [] -> forallb is_digit es = true ->
  ((sg = [] /\ neg = false) \/ (sg = [ch_plus] /\ neg = false) \/ (sg = [ch_minus] /\ neg = true)) ->
  py_float (D1 ++ dotl DOT ++ D2 ++ ch_e :: sg ++ es)
  = POk (flt_of (if neg then (mantissa D1 D2 / inject_Z (10 ^ dec_val es))%Q
                 else (mantissa D1 D2 * inject_Z (10 ^ dec_val es))%Q)).
Proof.
  intros D1 DOT D2 sg es neg H1 H2 Hn H4 Hne He Hs.
  destruct (dec_parts_unique D1 DOT D2 (ch_e :: sg ++ es) H1 H2 eq_refl (fun E => conj (H4 E) eq_refl))
    as (E1 & E2 & E3 & E4).
  cbv zeta in E1, E2, E3, E4.
  rewrite py_float_eq, E1, E3, E4, Hn.
  assert (Hs' : sg = [] \/ sg = [ch_plus] \/ sg = [ch_minus]) by tauto.
  pose proof (exp_match_of_parts sg es [] He Hne I Hs') as X. rewrite app_nil_r in X. rewrite X.
  assert (En : (match sg with [c] => (c =? ch_minus)%N | _ => false end) = neg).
  { destruct Hs as [[-> ->]|[[-> ->]|[-> ->]]]; reflexivity. }
  rewrite En.
  replace (Nat.eqb (1 + List.length sg + List.length es) (List.length (ch_e :: sg ++ es))) with true
    by (symmetry; apply Nat.eqb_eq; simpl; rewrite app_length; lia).
  reflexivity.
Qed.

Lemma frac_value : forall d p, Qred (inject_Z d * Qred (1 # p))%Q = Qred (d # p)%Q.
Proof.
  intros d p. apply Qred_complete. rewrite Qred_correct. unfold Qeq, Qmult, inject_Z. simpl. lia.
Qed.


Lemma last_exp : forall (G sg es : text), es <> [] -> last (G ++ ch_e :: sg ++ es) 0%N = last es 0%N.
Proof.
  intros G sg es H. rewrite last_app_ne by discriminate.
  replace (ch_e :: sg ++ es) with ((ch_e :: sg) ++ es) by reflexivity. apply last_app_ne, H.
Qed.
Lemma idx_last_exp : forall (G sg es : text), es <> [] -> forallb is_digit es = true ->
  idx_last (G ++ ch_e :: sg ++ es) = POk (last es 0%N) /\ (last es 0 =? 46)%N = false.
Proof.
  intros G sg es Hn Hd. split.
  - rewrite idx_last_ne by (destruct G; discriminate). rewrite last_exp by exact Hn. reflexivity.
  - apply digit_not_dot_b, last_forallb; assumption.
Qed.

Lemma read_num_dec_src : forall i s, based_window (skipn i s) = false ->
  g_read_num_token i s = tok_of_nres i (read_dec (skipn i s)).
Proof.
  intros i s W. unfold g_read_num_token, based_match. cbv zeta. rewrite W.
  rewrite num_match_eq, read_dec_eq. cbv zeta.
  destruct (dec_parts (skipn i s)) as (Er & H1 & H2 & H3 & H4).
  set (r := skipn i s) in *.
  generalize dependent (p_r3 r). generalize dependent (p_d2 r). generalize dependent (p_dot r). generalize dependent (p_d1 r).
  intros D1 H1 DOT D2 H2 R3 Er H3 H4.
  destruct (is_nil D1 && is_nil D2) eqn:Enil; [reflexivity|].
  cbn [grp m_groups nth_error pbind m_start m_end need_text].
  unfold dec_result.
  assert (Hd : DOT = false -> D1 <> [] /\ D2 = []).
  { intro E. destruct (H4 E) as [-> _]. split; [|reflexivity]. intros ->. discriminate. }
  destruct (exp_match R3) as [[[neg es] k]|] eqn:Ex.
  - destruct (exp_text _ _ _ _ Ex) as (sg & Ef & Hne & Hde & Hs & _ & Ek).
    cbv beta iota. rewrite Ef.
    destruct (idx_last_exp (D1 ++ dotl DOT ++ D2) sg es Hne Hde) as [El Ed]. rewrite El. cbn [pbind]. rewrite Ed.
    cbn [pbind]. rewrite (dot_in_g1 D1 DOT D2 H1 H2).
    assert (Elen : List.length ((D1 ++ dotl DOT ++ D2) ++ ch_e :: sg ++ es)
                   = List.length D1 + (if DOT then 1 else 0) + List.length D2 + k).
    { rewrite Ek, !app_length. destruct DOT; simpl; rewrite ?app_length; lia. }
    rewrite Elen. clear Elen El.
    destruct DOT; cbn [negb].
    + rewrite <- !app_assoc.
      rewrite (py_float_exp D1 true D2 sg es neg H1 H2 Enil (fun E => ltac:(discriminate)) Hne Hde Hs).
      cbn [pbind]. unfold num_value, mk_flt, flt_of.
      destruct neg; match goal with |- context [Qle_bool flt_overflow ?q] => destruct (Qle_bool flt_overflow q) end; reflexivity.
    + destruct (Hd eq_refl) as [Hn1 ->]. cbn [dotl]. rewrite !app_nil_r.
      rewrite (py_int_digits D1 Hn1 H1). cbn [pbind ot_truthy need_text skipn].
      rewrite (py_int_signed sg es neg Hne Hde Hs). cbn [pbind].
      pose proof (dec_val_nonneg es) as Hnn.
      unfold num_value.
      destruct neg; cbn [andb].
      * destruct (Z.ltb_spec 0 (dec_val es)) as [Hp|Hz].
        -- assert (E1 : (- dec_val es <? 0)%Z = true) by (apply Z.ltb_lt; lia).
           assert (E2 : (dec_val es <? 0)%Z = false) by (apply Z.ltb_ge; lia).
           assert (E3 : (0 <? 10 ^ dec_val es)%Z = true) by (apply Z.ltb_lt, Z.pow_pos_nonneg; lia).
           rewrite E1, Z.opp_involutive. unfold py_pow, py_frac. rewrite E2. cbn [pbind]. rewrite E3.
           cbn [pbind py_mul pcatch lit_of]. rewrite frac_value. reflexivity.
        -- assert (E0 : dec_val es = 0%Z) by lia. rewrite E0. reflexivity.
      * assert (E2 : (dec_val es <? 0)%Z = false) by (apply Z.ltb_ge; lia).
        unfold py_pow. rewrite E2. reflexivity.
  - cbv beta iota. rewrite !app_nil_r.
    assert (Esk : skipn (i + List.length (D1 ++ dotl DOT ++ D2)) s = R3).
    { rewrite skipn_add. fold r. rewrite Er.
      replace (D1 ++ dotl DOT ++ D2 ++ R3) with ((D1 ++ dotl DOT ++ D2) ++ R3) by (rewrite <- !app_assoc; reflexivity).
      apply skipn_app_exact. }
    rewrite ltb_skipn, idx_skipn, Esk. rewrite (dot_in_g1 D1 DOT D2 H1 H2).
    assert (Elen : List.length (D1 ++ dotl DOT ++ D2) = List.length D1 + (if DOT then 1 else 0) + List.length D2)
      by (rewrite !app_length; destruct DOT; simpl; lia).
    rewrite Elen. clear Elen Esk.
    destruct DOT; [destruct D2 as [|d2 D2']|].
    + (* "12." : a range dot may follow *)
      assert (Hn1 : D1 <> []) by (intros ->; discriminate).
      cbn [dotl app]. change ch_dot with 46%N. rewrite idx_last_ne by (destruct D1; discriminate). rewrite last_last.
      cbn [pbind negb andb is_nil]. change (46 =? 46)%N with true. cbv iota.
      destruct R3 as [|c R3']; [|cbn [pbind starts_dot]; change ch_dot with 46%N; destruct (c =? 46)%N].
      * cbn [pbind starts_dot]. change (D1 ++ [46%N]) with (D1 ++ dotl true ++ []).
        rewrite (py_float_plain D1 true [] H1 eq_refl Enil (fun E => ltac:(discriminate))).
        cbn [pbind]. unfold num_value, mk_flt, flt_of. cbn [List.length].
        match goal with |- context [Qle_bool flt_overflow ?q] => destruct (Qle_bool flt_overflow q) end; reflexivity.
      * rewrite removelast_last, (py_int_digits D1 Hn1 H1).
        replace (i + (List.length D1 + 1 + List.length (@nil N))) with (S (i + List.length D1)) by (simpl; lia).
        unfold psub. cbn [Nat.leb pbind tok_of_nres]. f_equal. f_equal. lia.
      * change (D1 ++ [46%N]) with (D1 ++ dotl true ++ []).
        rewrite (py_float_plain D1 true [] H1 eq_refl Enil (fun E => ltac:(discriminate))).
        cbn [pbind]. unfold num_value, mk_flt, flt_of. cbn [List.length].
        match goal with |- context [Qle_bool flt_overflow ?q] => destruct (Qle_bool flt_overflow q) end; reflexivity.
    + (* "12.5" *)
      rewrite idx_last_ne by (destruct D1; discriminate).
      replace (D1 ++ dotl true ++ d2 :: D2') with ((D1 ++ dotl true) ++ d2 :: D2') by (rewrite <- app_assoc; reflexivity).
      rewrite last_app_ne by discriminate. cbn [pbind].
      rewrite (digit_not_dot_b _ (last_forallb is_digit (d2 :: D2') 0%N ltac:(discriminate) H2)).
      cbn [pbind negb andb is_nil]. rewrite <- app_assoc.
      rewrite (py_float_plain D1 true (d2 :: D2') H1 H2 Enil (fun E => ltac:(discriminate))).
      cbn [pbind]. unfold num_value, mk_flt, flt_of.
      match goal with |- context [Qle_bool flt_overflow ?q] => destruct (Qle_bool flt_overflow q) end; reflexivity.
    + (* "12" *)
      destruct (Hd eq_refl) as [Hn1 ->]. cbn [dotl]. rewrite !app_nil_r.
      rewrite idx_last_ne by exact Hn1. cbn [pbind].
      rewrite (digit_not_dot_b _ (last_forallb is_digit D1 0%N Hn1 H1)).
      cbn [pbind negb andb]. rewrite (py_int_digits D1 Hn1 H1). reflexivity.
Qed.

Theorem read_num_token_is_source : forall i s,
  g_read_num_token i s = tok_of_nres i (read_num (skipn i s)).
Proof.
  intros i s. unfold read_num. destruct (based_window (skipn i s)) eqn:W.
  - apply read_num_based_src, W.
  - apply read_num_dec_src, W.
Qed.

(* ================================================================== skip_whitespace, read_token, tokenise *)
(* the model's read_token on the suffix, as an optional token (or the error) at index i *)
Definition tok_of_rtok (i : nat) (r : rtok) : pres (option token) :=
  match r with
  | RTok tg n v => POk (Some (mkTok tg i (i + n) v))
  | RNone => POk None
  | RErr e => PRaise (XLex e i)
  end.

Section Src.
  Variables isspace isalpha isnumeric : N -> bool.
  Variables ctoks atoks : list text.

  (* ---------------------------------------------------------------- skip_whitespace: takew isspace *)
  Lemma skip_whitespace_loop : forall fuel i s, List.length (skipn i s) < fuel ->
    g_skip_whitespace_while1 isspace fuel i s = POk (i + List.length (takew isspace (skipn i s))).
  Proof.
    induction fuel as [|f IH]; intros i s L; [lia|].
    cbn [g_skip_whitespace_while1]. rewrite ltb_skipn, idx_skipn.
    destruct (skipn i s) as [|c t] eqn:E.
    - cbn. rewrite Nat.add_0_r. reflexivity.
    - cbn [pbind takew]. destruct (isspace c) eqn:Ec.
      + rewrite IH; rewrite (skipn_cons_next _ _ _ _ E); [|simpl in L; lia].
        f_equal. simpl. lia.
      + simpl. rewrite Nat.add_0_r. reflexivity.
  Qed.

  Lemma skip_whitespace_is_source : forall i s,
    g_skip_whitespace isspace i s = POk (i + List.length (takew isspace (skipn i s))).
  Proof. intros. unfold g_skip_whitespace. apply skip_whitespace_loop, fuel_enough. Qed.

  (* ---------------------------------------------------------------- read_token *)
  (* the identifier branch *)
  Definition m_ident (i : nat) (r : text) : pres (option token) :=
    match r with
    | c :: t => if ident_start c
                then let cs := takew ident_char t in POk (Some (mkTok TVar i (i + S (List.length cs)) (VText (c :: cs))))
                else POk None
    | [] => POk None
    end.

  Lemma read_token_scan : forall i s l, i <= List.length s ->
    g_read_token_for1 isalpha atoks i s l =
    match scan isalpha atoks l (skipn i s) with
    | Some tk => POk (Some (mkTok (TConst tk) i (i + List.length tk) VNone))
    | None => m_ident i (skipn i s)
    end.
  Proof.
    intros i s l Hi. induction l as [|t l IH].
    - cbn [g_read_token_for1 scan]. unfold var_match, m_ident.
      destruct (skipn i s) as [|c r]; [reflexivity|]. destruct (ident_start c); reflexivity.
    - cbn [g_read_token_for1 scan]. unfold entry_hit, next_not_alpha.
      assert (Hl : Nat.leb i (List.length s) = true) by (apply Nat.leb_le; exact Hi). rewrite Hl. cbn [andb].
      rewrite leb_skipn, idx_skipn, skipn_add.
      destruct (starts_with t (skipn i s)); cbn [andb pbind]; [|exact IH].
      destruct (mem t atoks); cbn [negb orb pbind].
      + destruct (skipn (List.length t) (skipn i s)) as [|c r]; cbn [pbind].
        * reflexivity.
        * destruct (isalpha c); cbn [negb pbind]; [exact IH|reflexivity].
      + reflexivity.
  Qed.

  Lemma read_token_is_source : forall i s, i < List.length s ->
    g_read_token isalpha isnumeric ctoks atoks i s
    = tok_of_rtok i (read_token isalpha isnumeric ctoks atoks (skipn i s)).
  Proof.
    intros i s Hi. unfold g_read_token. rewrite !idx_skipn, ltb_skipn.
    pose proof (ltb_skipn s i) as Hne. apply Nat.ltb_lt in Hi. rewrite Hi in Hne.
    destruct (skipn i s) as [|c t] eqn:E; [discriminate|]. clear Hne.
    rewrite (skipn_cons_next _ _ _ _ E).
    unfold read_token. cbn [pbind]. change ch_quote with 34%N. change ch_hash with 35%N. change ch_dot with 46%N.
    destruct (c =? 34)%N.
    { rewrite read_string_is_source. unfold m_read_string. rewrite skipn_S_tl, E. cbn [tl].
      destruct (str_end t); reflexivity. }
    destruct (c =? 35)%N.
    { rewrite read_instant_is_source. unfold m_read_instant. rewrite skipn_S_tl, E. cbn [tl].
      destruct (inst_end t); reflexivity. }
    match goal with |- pbind ?X _ = _ => assert (Hns : X = POk (num_start isnumeric (c :: t))) end.
    { unfold num_start. change ch_dot with 46%N. destruct (isnumeric c); [reflexivity|]. cbn [orb].
      destruct (c =? 46)%N; [|reflexivity]. cbn [andb]. destruct t; reflexivity. }
    rewrite Hns. cbn [pbind].
    destruct (num_start isnumeric (c :: t)).
    { rewrite read_num_token_is_source, E. destruct (read_num (c :: t)); reflexivity. }
    rewrite read_token_scan by (apply Nat.ltb_lt in Hi; lia). rewrite E.
    destruct (scan isalpha atoks ctoks (c :: t)); [reflexivity|].
    unfold m_ident. destruct (ident_start c); reflexivity.
  Qed.

  (* ---------------------------------------------------------------- tokenise *)
  Definition lex_exn (e : lexerr) (j : nat) : pyexn :=
    match e with LexOutOfFuel => XFuel | _ => XLex e j end.
  Definition lift_lres (acc : list token) (r : lres (list token)) : pres (list token) :=
    match r with LOk ts => POk (acc ++ ts) | LErr e j => PRaise (lex_exn e j) end.

  Lemma tokenise_loop : forall fuel s off acc,
    (pdo i <- g_skip_whitespace isspace off s;
     g_tokenise_while1 isspace isalpha isnumeric ctoks atoks fuel s i acc)
    = lift_lres acc (toks isspace isalpha isnumeric ctoks atoks fuel off (skipn off s)).
  Proof.
    induction fuel as [|f IH]; intros s off acc; rewrite skip_whitespace_is_source; cbn [pbind].
    - reflexivity.
    - rewrite toks_S. cbn [g_tokenise_while1].
      set (r := skipn off s). set (w := takew isspace r).
      assert (Ei : skipn (off + List.length w) s = dropw isspace r).
      { rewrite skipn_add. fold r. unfold w. symmetry. apply dropw_skipn. }
      rewrite ltb_skipn. rewrite Ei.
      destruct (dropw isspace r) as [|c t] eqn:Ed.
      + cbn [lift_lres]. rewrite app_nil_r. reflexivity.
      + rewrite read_token_is_source.
        2:{ pose proof (ltb_skipn s (off + List.length w)) as L. rewrite Ei in L. apply Nat.ltb_lt. exact L. }
        rewrite Ei.
        pose proof (read_token_err_fuel isalpha isnumeric ctoks atoks (c :: t)) as Hf.
        destruct (read_token isalpha isnumeric ctoks atoks (c :: t)) as [tg n v| |e]; cbn [tok_of_rtok pbind].
        * cbv zeta. cbn [t_end].
          rewrite (IH s (off + List.length w + n) (acc ++ [mkTok tg (off + List.length w) (off + List.length w + n) v])).
          rewrite skipn_add, Ei.
          destruct (toks isspace isalpha isnumeric ctoks atoks f (off + List.length w + n) (skipn n (c :: t))) as [ts|e j];
            cbn [lift_lres]; [|reflexivity].
          rewrite <- app_assoc. reflexivity.
        * reflexivity.
        * specialize (Hf e eq_refl). destruct e; try reflexivity. congruence.
  Qed.

  Lemma tokenise_is_source : forall s,
    g_tokenise isspace isalpha isnumeric ctoks atoks s
    = lift_lres [] (tokenise isspace isalpha isnumeric ctoks atoks s).
  Proof.
    intro s. unfold g_tokenise, tokenise. cbv zeta.
    rewrite (tokenise_loop (S (List.length s)) s 0 []). reflexivity.
  Qed.
End Src.

(* ================================================================== with the regenerated tables *)
(* CONST_TOKENS / ALPHA_TOKENS instantiated with the live tables (gen_ctoks is decoded from const_tokens, which
   const_tokens_is_source ties to the list display of the AST) *)
Theorem ka_tokenise_is_source : forall isspace isalpha isnumeric s,
  g_tokenise isspace isalpha isnumeric gen_ctoks gen_atoks s
  = lift_lres [] (ka_tokenise isspace isalpha isnumeric s).
Proof. intros. apply tokenise_is_source. Qed.

Theorem ka_read_token_is_source : forall isalpha isnumeric i s, i < List.length s ->
  g_read_token isalpha isnumeric gen_ctoks gen_atoks i s
  = tok_of_rtok i (ka_read_token isalpha isnumeric (skipn i s)).
Proof. intros. apply read_token_is_source. assumption. Qed.

(* Consequently the translated tokenise returns the model's tokens or raises the model's lexical error at the model's
   index: none of the operations bound on the way escapes with IndexError / ValueError / OverflowError / TypeError,
   no conversion leaves the mapping, and every loop ends within its fuel (1 + len(s)). *)
Theorem source_outcomes : forall isspace isalpha isnumeric s,
  (exists ts, g_tokenise isspace isalpha isnumeric gen_ctoks gen_atoks s = POk ts
              /\ ka_tokenise isspace isalpha isnumeric s = LOk ts)
  \/ (exists e j, e <> LexOutOfFuel
              /\ g_tokenise isspace isalpha isnumeric gen_ctoks gen_atoks s = PRaise (XLex e j)
              /\ ka_tokenise isspace isalpha isnumeric s = LErr e j).
Proof.
  intros isspace isalpha isnumeric s. rewrite ka_tokenise_is_source.
  pose proof (tokenise_never_out_of_fuel isspace isalpha isnumeric gen_ctoks gen_atoks ctoks_nonempty s) as Hf.
  unfold ka_tokenise. destruct (tokenise isspace isalpha isnumeric gen_ctoks gen_atoks s) as [ts|e j].
  - left. exists ts. split; reflexivity.
  - right. exists e, j. assert (He : e <> LexOutOfFuel) by (intros ->; exact (Hf j eq_refl)).
    split; [exact He|]. split; [|reflexivity]. destruct e; try reflexivity. congruence.
Qed.

Print Assumptions var_regex_is_source.
Print Assumptions based_int_regex_is_source.
Print Assumptions num_regex_is_source.
Print Assumptions const_tokens_is_source.
Print Assumptions tag_strings_live.
Print Assumptions token_ctors_ok.
Print Assumptions skip_whitespace_is_source.
Print Assumptions read_string_is_source.
Print Assumptions read_instant_is_source.
Print Assumptions read_num_token_is_source.
Print Assumptions read_token_is_source.
Print Assumptions tokenise_is_source.
Print Assumptions ka_read_token_is_source.
Print Assumptions ka_tokenise_is_source.
Print Assumptions source_outcomes.
