(* C08 — Event probabilities equal the distribution's mass on the condition as written.
   Statements only; each is closed by [exact <lemma>].

   Vocabulary (Model/Prob.v): [P_written w] is what P(...) delivers for the comparison
   chain w as typed (parser flip of > and >=, dispatch to the event constructors,
   Event/DoubleEvent.probability, eval_probability).  [wsingle X s r t] is "X r t"
   (s = XLeft) or "t r X" (s = XRight); [wdouble X a r1 r2 b] is "a r1 X r2 b".
   [cond1]/[cond2] are those conditions read on an integer k, as written.
   [mass_on pmf c lo hi] = Σ over the integers k in lo..hi with c k of pmf k. *)
From Coq Require Import QArith Qround Qminmax.
From Ka Require Import Model.Prob Proofs.ProbProofs.

Open Scope Q_scope.

(* ---- discrete laws, generically: masses >= 0, no mass below L, cdf t = Σ_{k=L..t} pmf k
   for EVERY integer t.  Thresholds are arbitrary rationals (not only integers). *)

(* X < t, X <= t, t > X, t >= X: the satisfying integers are bounded above, and P is the
   mass on exactly them — in every window [lo,hi] that starts at or below the support and
   reaches the threshold (so nothing satisfying the condition is left out). *)
Theorem C08_single_bounded :
  forall (pmf cdf : Z -> Q) (L : Z),
    (forall k, 0 <= pmf k) -> (forall k, (k < L)%Z -> pmf k == 0) ->
    (forall t, cdf t == sumZ pmf L t) ->
  forall s r t lo hi, r <> Req -> bounded_above s r = true -> (lo <= L)%Z -> (Qfloor t <= hi)%Z ->
  exists v, P_written (wsingle (Disc pmf cdf) s r t) = Ok v /\
            v == mass_on pmf (cond1 s r t) lo hi.
Proof. exact single_bounded. Qed.

(* X > t, X >= t, t < X, t <= X: the satisfying set is infinite; the statement is
   P = 1 - (mass on the complementary integers, a finite set).  That the total mass is 1
   is a property of the individual law (proved where the support is finite:
   C08_binomial_total_mass; Bernoulli and UniformInt have cdf = 1 from the top of the support
   by bernoulli_cdf / uniformint_cdf themselves). *)
Theorem C08_single_unbounded :
  forall (pmf cdf : Z -> Q) (L : Z),
    (forall k, 0 <= pmf k) -> (forall k, (k < L)%Z -> pmf k == 0) ->
    (forall t, cdf t == sumZ pmf L t) ->
  forall s r t lo hi, r <> Req -> bounded_above s r = false -> (lo <= L)%Z -> (Qfloor t <= hi)%Z ->
  exists v, P_written (wsingle (Disc pmf cdf) s r t) = Ok v /\
            v == 1 - mass_on pmf (fun k => negb (cond1 s r t k)) lo hi.
Proof. exact single_unbounded. Qed.

(* a op1 X op2 b for the 4 forward (<, <=) and the 4 backward (>, >=) chains, including
   a > b (empty condition, P = 0) and non-integer a, b. *)
Theorem C08_double :
  forall (pmf cdf : Z -> Q) (L : Z),
    (forall k, 0 <= pmf k) -> (forall k, (k < L)%Z -> pmf k == 0) ->
    (forall t, cdf t == sumZ pmf L t) ->
  forall a r1 r2 b lo hi, same_dir r1 r2 = true ->
    (lo <= L)%Z -> (Qfloor a <= hi)%Z -> (Qfloor b <= hi)%Z ->
  exists v, P_written (wdouble (Disc pmf cdf) a r1 r2 b) = Ok v /\
            v == mass_on pmf (cond2 a r1 r2 b) lo hi.
Proof. exact double_mass. Qed.

(* P(X = k) is the mass at k. *)
Theorem C08_point :
  forall (pmf cdf : Z -> Q) (k : Z),
    P_written (W1 (TRv (Disc pmf cdf)) Req (TNum (inject_Z k))) = Ok (pmf k).
Proof. exact point_mass. Qed.

(* A chain that mixes directions (a < X > b, ...) or contains "=" is a diagnosed error. *)
Theorem C08_mixed_chain_rejected :
  forall a r1 m r2 b, same_dir r1 r2 = false ->
    P_written (W2 a r1 m r2 b) = Raise UnknownFunctionError.
Proof. exact P_mixed_rejected. Qed.

(* ---- the section hypothesis holds for each concrete discrete law, for all integer t *)
Theorem C08_binomial_cdf_sum : forall n p, 0 <= p -> p <= 1 ->
  discrete_law (binomial_pmf n p) (binomial_cdf n p) 0.
Proof. exact binomial_law. Qed.
Theorem C08_poisson_cdf_sum : forall mu e, 0 <= mu -> 0 <= e ->      (* e stands for exp(-mu) *)
  discrete_law (poisson_pmf mu e) (poisson_cdf mu e) 0.
Proof. exact poisson_law. Qed.
Theorem C08_geometric_cdf_sum : forall p, 0 <= p -> p <= 1 ->
  discrete_law (geometric_pmf p) (geometric_cdf p) 1.
Proof. exact geometric_law. Qed.
Theorem C08_bernoulli_cdf_sum : forall p, 0 <= p -> p <= 1 ->
  discrete_law (bernoulli_pmf p) (bernoulli_cdf p) 0.
Proof. exact bernoulli_law. Qed.
Theorem C08_uniformint_cdf_sum : forall lo hi, (lo <= hi)%Z ->
  discrete_law (uniformint_pmf lo hi) (uniformint_cdf lo hi) lo.
Proof. exact uniformint_law. Qed.

(* Hence every valid Binomial/Poisson/Geometric/Bernoulli/UniformInt object, as P(...) sees it
   after the constructor's validation, is such a law (Poisson: given exp(-mu) >= 0). *)
Theorem C08_discrete_laws_instantiate : forall fo l, valid_params l ->
  (forall mu, l = Poisson mu -> 0 <= expneg fo mu) ->
  match rv_of fo l with
  | Disc pmf cdf => exists L, discrete_law pmf cdf L
  | Cont _ => True
  end.
Proof. exact discrete_laws_instantiate. Qed.
Theorem C08_P_law_valid : forall fo l mk, valid_params l ->
  P_law fo l mk = P_written (mk (rv_of fo l)).
Proof. exact P_law_valid. Qed.

(* ---- bounds and complements *)
(* Whatever P delivers on any written form is in [0,1], provided the variables' own
   masses and cdf values are. *)
Theorem C08_bounds : forall w v, written_good w -> P_written w = Ok v -> 0 <= v <= 1.
Proof. exact bounds_written. Qed.
(* ... which they are for these laws (Poisson/Exponential/Gaussian: relative to exp/erf, see the
   _partial theorems; for Poisson the bound cdf <= 1 is e^-mu * Σ mu^j/j! <= 1, not proved). *)
Theorem C08_good_laws :
  (forall n p, (0 < n)%Z -> 0 <= p -> p <= 1 -> good_rv (Disc (binomial_pmf n p) (binomial_cdf n p))) /\
  (forall p, 0 <= p -> p <= 1 -> good_rv (Disc (bernoulli_pmf p) (bernoulli_cdf p))) /\
  (forall p, 0 <= p -> p <= 1 -> good_rv (Disc (geometric_pmf p) (geometric_cdf p))) /\
  (forall lo hi, (lo <= hi)%Z -> good_rv (Disc (uniformint_pmf lo hi) (uniformint_cdf lo hi))) /\
  (forall lo hi, lo <= hi -> good_rv (Cont (uniform_cdf lo hi))).
Proof. exact good_laws. Qed.
(* The binomial masses sum to 1 (binomial theorem, with utils.choose proved to be the
   binomial coefficient), so the cdf is 1 from n on. *)
Theorem C08_binomial_total_mass : forall n p, (0 <= n)%Z -> sumZ (binomial_pmf n p) 0 n == 1.
Proof. exact binomial_total_mass. Qed.

(* P(X r t) + P(X (not r) t) = 1 for r in <, <=, >, >= and the variable on either side;
   no assumption on the variable. *)
Theorem C08_complement : forall X s r t v1 v2, r <> Req ->
  P_written (wsingle X s r t) = Ok v1 -> P_written (wsingle X s (negate r) t) = Ok v2 ->
  v1 + v2 == 1.
Proof. exact complement_sum. Qed.

(* ---- continuous variables: differences of the cdf F *)
Theorem C08_cont_single : forall F s r t, r <> Req ->
  P_written (wsingle (Cont F) s r t) = Ok (if bounded_above s r then F t else 1 - F t).
Proof. exact P_single_cont. Qed.
Theorem C08_cont_double : forall F a r1 r2 b, same_dir r1 r2 = true ->
  P_written (wdouble (Cont F) a r1 r2 b)
  = Ok (Qmax (F (chain_hi r1 a b) - F (chain_lo r1 a b)) 0).
Proof. exact P_double_cont. Qed.
Theorem C08_cont_double_ordered : forall F a r1 r2 b,
  (forall x y, x <= y -> F x <= F y) -> same_dir r1 r2 = true ->
  chain_lo r1 a b <= chain_hi r1 a b ->
  exists v, P_written (wdouble (Cont F) a r1 r2 b) = Ok v /\
            v == F (chain_hi r1 a b) - F (chain_lo r1 a b).
Proof. exact P_double_cont_ordered. Qed.

(* uniform_cdf is the cdf of the uniform law: normalised length of (-inf,x] ∩ [lo,hi];
   0 below lo, 1 from hi on (also when lo = hi, where no division is ever evaluated),
   nondecreasing. *)
Theorem C08_uniform_cdf_true :
  (forall lo hi x, lo < hi -> uniform_cdf lo hi x == (Qmin (Qmax x lo) hi - lo) / (hi - lo)) /\
  (forall lo hi x, x < lo -> uniform_cdf lo hi x == 0) /\
  (forall lo hi x, lo <= hi -> hi <= x -> uniform_cdf lo hi x == 1) /\
  (forall lo hi x y, lo <= hi -> x <= y -> uniform_cdf lo hi x <= uniform_cdf lo hi y).
Proof. exact uniform_cdf_true. Qed.

(* Exponential / Gaussian cdfs are nondecreasing with values in [0,1] relative to
   exp(-x) nonincreasing in (0,1] on x >= 0 and erf nondecreasing in [-1,1]
   (properties of libm's functions: assumed, validated numerically by the harness). *)
Theorem C08_exponential_cdf_partial : forall en lam,
  (forall x, 0 <= x -> 0 <= en x <= 1) -> (forall x y, x <= y -> en y <= en x) -> 0 < lam ->
  (forall x, 0 <= exponential_cdf en lam x <= 1) /\
  (forall x y, x <= y -> exponential_cdf en lam x <= exponential_cdf en lam y) /\
  (forall x, x < 0 -> exponential_cdf en lam x == 0).
Proof. exact exponential_cdf_facts. Qed.
Theorem C08_gaussian_cdf_partial : forall ef mu sd,
  (forall z, -(1) <= ef z <= 1) -> (forall x y, x <= y -> ef x <= ef y) -> 0 < sd ->
  (forall x, 0 <= gaussian_cdf ef mu sd x <= 1) /\
  (forall x y, x <= y -> gaussian_cdf ef mu sd x <= gaussian_cdf ef mu sd y).
Proof. exact gaussian_cdf_facts. Qed.

(* ---- means and parameter validation *)
Theorem C08_means :
  (forall n p, valid_params (Binomial n p) -> mean_of (Binomial n p) = Ok (inject_Z n * p)) /\
  (forall mu, valid_params (Poisson mu) -> mean_of (Poisson mu) = Ok mu) /\
  (forall p, valid_params (Geometric p) -> ~ p == 0 -> mean_of (Geometric p) = Ok (1 / p)) /\
  (forall p, valid_params (Bernoulli p) ->
     mean_of (Bernoulli p) = Ok p /\ sumZ (fun k => inject_Z k * bernoulli_pmf p k) 0 1 == p) /\
  (forall lo hi, (lo <= hi)%Z ->
     exists m, mean_of (UniformInt lo hi) = Ok m /\ m == (inject_Z lo + inject_Z hi) / 2 /\
               m == sumZ (fun k => inject_Z k * uniformint_pmf lo hi k) lo hi) /\
  (forall lam, valid_params (Exponential lam) -> mean_of (Exponential lam) = Ok (1 / lam)) /\
  (forall lo hi, valid_params (Uniform lo hi) ->
     exists m, mean_of (Uniform lo hi) = Ok m /\ m == (lo + hi) / 2) /\
  (forall mu sd, valid_params (Gaussian mu sd) -> mean_of (Gaussian mu sd) = Ok mu).
Proof. exact means_closed_forms. Qed.
(* Geometric(0) is accepted by the constructor (0 <= p <= 1); its mean 1/0 is a
   ZeroDivisionError, which eval_parse_tree reports as a diagnosed error. *)
Theorem C08_mean_geometric_zero : forall p, p == 0 -> mean_of (Geometric p) = Raise ZeroDivisionError.
Proof. exact mean_geometric_zero. Qed.

(* The constructors accept exactly [valid_params] and raise InvalidParameterException
   otherwise, so neither P(...) nor mean(...) ever sees an invalid law. *)
Theorem C08_invalid_params_rejected : forall l,
  (valid_params l /\ make_rv l = Ok l) \/
  (~ valid_params l /\ make_rv l = Raise InvalidParameterException /\
   mean_of l = Raise InvalidParameterException /\
   forall fo mk, P_law fo l mk = Raise InvalidParameterException).
Proof. exact invalid_params_rejected. Qed.

(* ---- non-vacuity *)
(* P(3 <= Binomial(10,3/10) < 7), its backward spelling, and the mass on {3,...,6} *)
Example C08_witness_binomial :
  let X := Disc (binomial_pmf 10 (3#10)) (binomial_cdf 10 (3#10)) in
  (exists v, P_written (wdouble X 3 Rle Rlt 7) = Ok v /\ v == 758281419 # 1250000000) /\
  (exists v, P_written (wdouble X 7 Rgt Rge 3) = Ok v /\ v == 758281419 # 1250000000) /\
  mass_on (binomial_pmf 10 (3#10)) (cond2 3 Rle Rlt 7) (-5) 20 == 758281419 # 1250000000 /\
  P_written (wdouble X 7 Rgt Rle 3) = Raise UnknownFunctionError.
Proof.
  cbv zeta. split; [|split; [|split]].
  - eexists; split; [vm_compute; reflexivity|vm_compute; reflexivity].
  - eexists; split; [vm_compute; reflexivity|vm_compute; reflexivity].
  - vm_compute. reflexivity.
  - vm_compute. reflexivity.
Qed.
(* non-integer thresholds: P(UniformInt(1,10) <= 5/2) = P(UniformInt(1,10) < 5/2) = 1/5,
   P(5/2 <= UniformInt(1,10)) = 4/5; an invalid law is rejected *)
Example C08_witness_noninteger :
  let fo := flops_of [] [] in
  (exists v, P_law fo (UniformInt 1 10) (fun X => wsingle X XLeft Rle (5#2)) = Ok v /\ v == 1#5) /\
  (exists v, P_law fo (UniformInt 1 10) (fun X => wsingle X XLeft Rlt (5#2)) = Ok v /\ v == 1#5) /\
  (exists v, P_law fo (UniformInt 1 10) (fun X => wsingle X XRight Rle (5#2)) = Ok v /\ v == 4#5) /\
  P_law fo (Binomial 0 (1#2)) (fun X => wsingle X XLeft Rle 1) = Raise InvalidParameterException.
Proof.
  cbv zeta. repeat split; try (eexists; split; vm_compute; reflexivity).
Qed.

Print Assumptions C08_single_bounded.
Print Assumptions C08_single_unbounded.
Print Assumptions C08_double.
Print Assumptions C08_point.
Print Assumptions C08_mixed_chain_rejected.
Print Assumptions C08_binomial_cdf_sum.
Print Assumptions C08_poisson_cdf_sum.
Print Assumptions C08_geometric_cdf_sum.
Print Assumptions C08_bernoulli_cdf_sum.
Print Assumptions C08_uniformint_cdf_sum.
Print Assumptions C08_discrete_laws_instantiate.
Print Assumptions C08_P_law_valid.
Print Assumptions C08_bounds.
Print Assumptions C08_good_laws.
Print Assumptions C08_binomial_total_mass.
Print Assumptions C08_complement.
Print Assumptions C08_cont_single.
Print Assumptions C08_cont_double.
Print Assumptions C08_cont_double_ordered.
Print Assumptions C08_uniform_cdf_true.
Print Assumptions C08_exponential_cdf_partial.
Print Assumptions C08_gaussian_cdf_partial.
Print Assumptions C08_means.
Print Assumptions C08_mean_geometric_zero.
Print Assumptions C08_invalid_params_rejected.
