(* C18 — Samples stay in support, follow P(), and are reproducible from the seed.
   Statements only; each is closed by [exact <lemma>] (Proofs/SamplingProofs.v).

   What is proved, for ALL draws u in [0,1), all parameters and all sizes, over exact
   rationals: the support of every sampler; the number of values sample(X, n) returns;
   the inverse-transform facts  sample_u X u <= t  <->  u < cdf X t  against the very cdf
   functions of Model/Prob.v that C08 proves P() to evaluate; and that after seed(k) the
   outputs are a function of k and the operation sequence alone.

   From the inverse-transform facts "samples follow P()" follows for a uniform u:
   Pr[sample <= t] = Pr[u < cdf t] = cdf t  (and, for the reflected forms, Pr[1-u <= cdf t]
   = cdf t, 1-u being uniform on (0,1]).  Coq proves the universally quantified set
   identity; that random.random() IS uniform is a fact about the Mersenne Twister that
   the harness supports statistically (DKW band), not a theorem.

   Clauses named [_partial] rest on hypotheses about externals (math.log, utils.erfinv,
   the generator's contract 0 <= random.random() < 1); each says what is assumed.
   Floats: the continuous samplers return doubles; the model is their ideal value. *)
From Coq Require Import QArith Qround List.
From Ka Require Import Model.Sampling Proofs.SamplingProofs.
Open Scope Q_scope.

(* ---------------- support, as functions of the draw ---------------- *)
Theorem C18_support_bernoulli : forall p u, bernoulli_u p u = 0%Z \/ bernoulli_u p u = 1%Z.
Proof. exact bernoulli_support. Qed.

Theorem C18_support_uniformint : forall lo hi u, (lo <= hi)%Z -> 0 <= u -> u < 1 ->
  (lo <= uniformint_u lo hi u <= hi)%Z.
Proof. exact uniformint_support. Qed.

(* within [lo,hi]; strictly below hi when lo < hi (lo = hi gives the single point lo) *)
Theorem C18_support_uniform : forall lo hi u, lo <= hi -> 0 <= u -> u < 1 ->
  lo <= uniform_u lo hi u /\ uniform_u lo hi u <= hi /\ (lo < hi -> uniform_u lo hi u < hi).
Proof. exact uniform_support. Qed.

(* n trials: a count between 0 and n, whatever the draws *)
Theorem C18_support_binomial : forall p us,
  (0 <= binomial_us p us <= Z.of_nat (List.length us))%Z.
Proof. exact binomial_support. Qed.

(* Poisson (any pmf): the loop returns a natural number k — the least index whose
   cumulative mass exceeds u (so k >= 0 and k is exactly the inverse-transform value) *)
Theorem C18_support_poisson : forall pmf fuel u k, poisson_gen pmf fuel u = Ok k ->
  (0 <= Z.of_nat k)%Z /\ u < psum pmf k /\ (forall j, (j < k)%nat -> psum pmf j <= u).
Proof. exact poisson_support. Qed.

(* the `while True` loop ends as soon as some cumulative sum exceeds u (fuel only bounds
   the model's loop; the implementation's loop has no bound — see the C18 check's finding
   about pmf underflow/overflow for large mu) *)
Theorem C18_poisson_terminates : forall pmf fuel u n, u < psum pmf n -> (n < fuel)%nat ->
  exists k, poisson_gen pmf fuel u = Ok k.
Proof. exact poisson_gen_terminates. Qed.

(* Exponential >= 0: rests on  log x <= 0 for 0 < x <= 1  (math.log is external) *)
Theorem C18_support_exponential_partial : forall (logK : Q -> Q) lam u,
  (forall x, 0 < x -> x <= 1 -> logK x <= 0) -> 0 < lam -> 0 <= u -> u < 1 ->
  0 <= exponential_u logK lam u.
Proof. exact exponential_support. Qed.

(* Geometric >= 1, by the max — for ANY log function and any draw (as repaired in 65d67d6) *)
Theorem C18_support_geometric : forall (logK : Q -> Q) p u z,
  geometric_u logK p u = Ok z -> (1 <= z)%Z.
Proof. exact geometric_support. Qed.

(* every law through the generator state: a delivered sample is in the support and the
   generator only advances.  Rests on the sign of log on (0,1] and on the generator's
   contract (good_src: every draw in [0,1)). *)
Theorem C18_support_all_partial : forall (logK erfinvK : Q -> Q) sqrt2 (expnegK : Q -> Q) fuel X s v s',
  (forall x, 0 < x -> x <= 1 -> logK x <= 0) ->
  valid_params X -> good_src (src s) ->
  sample logK erfinvK sqrt2 expnegK fuel X s = (Ok v, s') ->
  in_support X v /\ src s' = src s.
Proof. exact sample_support. Qed.

(* Gaussian: no bounded support to prove; the sampler is monotone in u (given a monotone
   erfinv, sqrt 2 >= 0), which is what makes it an inverse transform *)
Theorem C18_gaussian_monotone_partial : forall (erfinvK : Q -> Q) sqrt2 mu sd u u' q q',
  (forall x y, x <= y -> erfinvK x <= erfinvK y) -> 0 <= sqrt2 -> 0 < sd -> u <= u' ->
  gaussian_u erfinvK sqrt2 mu sd u = Ok q -> gaussian_u erfinvK sqrt2 mu sd u' = Ok q' -> q <= q'.
Proof. exact gaussian_monotone. Qed.

(* ---------------- sample(X, n) ---------------- *)
(* exactly max n 0 values whenever an array is delivered (n <= 0: the empty array) *)
Theorem C18_count : forall (logK erfinvK : Q -> Q) sqrt2 (expnegK : Q -> Q) fuel X n s l s',
  sample_multiple logK erfinvK sqrt2 expnegK fuel X n s = (Ok l, s') ->
  List.length l = Z.to_nat (Z.max n 0).
Proof. exact sample_multiple_count. Qed.

(* and they are the successive single samples on the same generator *)
Theorem C18_sample_multiple_successive :
  forall (logK erfinvK : Q -> Q) sqrt2 (expnegK : Q -> Q) fuel X n s, (0 <= n)%Z ->
  sample_multiple logK erfinvK sqrt2 expnegK fuel X (n + 1) s =
  match sample logK erfinvK sqrt2 expnegK fuel X s with
  | (Ok v, s1) => match sample_multiple logK erfinvK sqrt2 expnegK fuel X n s1 with
                  | (Ok l, s2) => (Ok (v :: l), s2)
                  | (Raise e, s2) => (Raise e, s2)
                  end
  | (Raise e, s1) => (Raise e, s1)
  end.
Proof. exact sample_multiple_unfold. Qed.

(* ---------------- inverse transform: samples follow P() ---------------- *)
(* Bernoulli.  `1 if u < p else 0` is NOT the transform of u itself (sample <= 0 <-> u >= p)
   but of the reflected draw 1-u, uniform on (0,1]:  sample <= t  <->  1-u <= cdf t, for
   every integer t, with Prob.v's bernoulli_cdf (0 below 0, 1-p on [0,1), 1 from 1).
   Equivalently: sample = 1 <-> u < p   and   sample = 0 <-> p <= u. *)
Theorem C18_inverse_cdf_bernoulli : forall p u t, 0 <= u -> u < 1 ->
  ((bernoulli_u p u <= t)%Z <-> 1 - u <= bernoulli_cdf p t).
Proof. exact bernoulli_inverse_cdf. Qed.
Theorem C18_bernoulli_pmf : forall p u,
  (bernoulli_u p u = 1%Z <-> u < p) /\ (bernoulli_u p u = 0%Z <-> p <= u).
Proof. exact bernoulli_pmf_iff. Qed.

(* UniformInt, every integer t (below lo, inside, from hi upwards) *)
Theorem C18_inverse_cdf_uniformint : forall lo hi u t, (lo <= hi)%Z -> 0 <= u -> u < 1 ->
  ((uniformint_u lo hi u <= t)%Z <-> u < uniformint_cdf lo hi t).
Proof. exact uniformint_inverse_cdf. Qed.

(* Uniform, lo < hi.  As it really is:  sample < t <-> u < cdf t  for EVERY t;
   sample <= t <-> u <= cdf t  for t >= lo (below lo the left side is false while u <= 0
   holds at the single draw u = 0); the two differ on a null set of draws. *)
Theorem C18_inverse_cdf_uniform_lt : forall lo hi u t, lo < hi -> 0 <= u -> u < 1 ->
  (uniform_u lo hi u < t <-> u < uniform_cdf lo hi t).
Proof. exact uniform_inverse_cdf_lt. Qed.
Theorem C18_inverse_cdf_uniform_le : forall lo hi u t, lo < hi -> 0 <= u -> u < 1 -> lo <= t ->
  (uniform_u lo hi u <= t <-> u <= uniform_cdf lo hi t).
Proof. exact uniform_inverse_cdf_le. Qed.
(* lo = hi: the point mass at lo *)
Theorem C18_inverse_cdf_uniform_point : forall lo u t, 0 <= u -> u < 1 ->
  (uniform_u lo lo u <= t <-> u < uniform_cdf lo lo t).
Proof. exact uniform_inverse_cdf_point. Qed.

(* Poisson, generic over a non-negative pmf: k = least index with Σ_{j<=k} pmf j > u, hence
   k <= t <-> u < Σ_{j<=t} pmf j *)
Theorem C18_inverse_cdf_poisson_generic : forall pmf fuel u k, (forall j, 0 <= pmf j) ->
  poisson_gen pmf fuel u = Ok k -> forall t, ((k <= t)%nat <-> u < psum pmf t).
Proof. exact poisson_gen_inverse_cdf. Qed.
(* ... and for Ka's Poisson(mu) with e = exp(-mu) >= 0 (a parameter: any such e), against
   Prob.v's poisson_cdf, the function P(Poisson(mu) <= t) evaluates *)
Theorem C18_inverse_cdf_poisson : forall (expnegK : Q -> Q) fuel mu u k,
  0 <= mu -> 0 <= expnegK mu ->
  poisson_gen (poisson_pmf_nat expnegK mu) fuel u = Ok k ->
  forall t, ((k <= t)%nat <-> u < poisson_cdf mu (expnegK mu) (Z.of_nat t)).
Proof. exact poisson_inverse_cdf. Qed.

(* Exponential relative to log/exp: on (0,1] log is strictly increasing, en z = exp(-z)
   lies in (0,1] for z >= 0 and log (en z) = -z.  Strict form, every threshold, against
   Prob.v's exponential_cdf. *)
Theorem C18_inverse_cdf_exponential_partial : forall (logK en : Q -> Q) lam u t,
  (forall x y, 0 < x -> x <= 1 -> 0 < y -> y <= 1 -> (x <= y <-> logK x <= logK y)) ->
  (forall z, 0 <= z -> 0 < en z /\ en z <= 1 /\ logK (en z) == - z) ->
  (forall x, 0 < x -> x <= 1 -> logK x <= 0) ->
  0 < lam -> 0 <= u -> u < 1 ->
  (exponential_u logK lam u < t <-> u < exponential_cdf en lam t).
Proof. exact exponential_inverse_cdf. Qed.

(* ---------------- seed, rand ---------------- *)
(* For every k and every operation sequence (rand / sample X / sample X n / further seeds),
   the outputs after seed(k) do not depend on the generator's prior state: two runs from
   different states agree.  In the model the generator is (sequence, position) and seed k
   installs (init k, 0), so this holds by construction for every init; that random.seed(k)
   really is such a function of k is the Mersenne Twister's contract, tied by the
   fresh-process reproducibility runs of the check. *)
Theorem C18_seed_determines :
  forall (logK erfinvK : Q -> Q) sqrt2 (expnegK : Q -> Q) fuel (init : Z -> nat -> Q) k ops s1 s2,
  fst (run_ops logK erfinvK sqrt2 expnegK fuel init (OSeed k :: ops) s1) =
  fst (run_ops logK erfinvK sqrt2 expnegK fuel init (OSeed k :: ops) s2).
Proof. exact seed_determines. Qed.
Theorem C18_seed_function :
  forall (logK erfinvK : Q -> Q) sqrt2 (expnegK : Q -> Q) fuel (init : Z -> nat -> Q) k ops s,
  fst (run_ops logK erfinvK sqrt2 expnegK fuel init (OSeed k :: ops) s) =
  VNone :: fst (run_ops logK erfinvK sqrt2 expnegK fuel init ops {| src := init k; pos := O |}).
Proof. exact seed_function. Qed.

(* rand() = the next draw, in [0,1) — given the generator's contract *)
Theorem C18_rand_range_partial :
  forall (logK erfinvK : Q -> Q) sqrt2 (expnegK : Q -> Q) fuel (init : Z -> nat -> Q) s,
  good_src (src s) ->
  exists u s', run_op logK erfinvK sqrt2 expnegK fuel init ORand s = (VNum (NFlt u), s')
               /\ 0 <= u /\ u < 1 /\ src s' = src s.
Proof. exact rand_range. Qed.

(* every interleaving of rand / sample / sample n / seed: each output is in range / in
   support / of the right size (or an exception) — given the sign of log on (0,1] and the
   generator's contract before and after every seed *)
Theorem C18_sequence_support_partial :
  forall (logK erfinvK : Q -> Q) sqrt2 (expnegK : Q -> Q) fuel (init : Z -> nat -> Q),
  (forall x, 0 < x -> x <= 1 -> logK x <= 0) -> (forall k, good_src (init k)) ->
  forall ops s, good_src (src s) ->
  Forall2 out_ok ops (fst (run_ops logK erfinvK sqrt2 expnegK fuel init ops s)).
Proof. exact run_ops_ok. Qed.

(* ---------------- non-vacuity ---------------- *)
(* concrete draws through every discrete sampler and Uniform *)
Example C18_witness_draws :
  uniformint_u 1 6 (1#2) = 4%Z /\ uniformint_u 1 6 0 = 1%Z /\
  uniformint_u 1 6 (9007199254740991 # 9007199254740992) = 6%Z /\
  uniformint_u (-3) 10000000000000000000000000 (9007199254740991 # 9007199254740992) = 9999999999999998889776976%Z /\
  bernoulli_u (1#3) (1#4) = 1%Z /\ bernoulli_u (1#3) (1#3) = 0%Z /\
  binomial_us (1#2) [1#4; 3#4; 0; 1#2] = 2%Z /\
  uniform_u (1#10) (3#10) (1#2) == 1#5 /\
  poisson_gen (fun k => nth k [1#4; 1#4; 1#4; 1#4] 0) 10 (5#8) = Ok 2%nat /\
  poisson_gen (fun k => 0) 10 (5#8) = Raise OutOfFuel.
Proof. vm_compute. repeat split; congruence. Qed.

(* a history on a prescribed source: seed, rand, single and multiple samples, a size 0 and a
   negative size, Geometric(1) consuming no draw; 9 draws consumed *)
Example C18_witness_history :
  vm_run [] 50
    [ORand; OSample (UniformInt 1 6); OSampleN (Binomial 3 (1#2)) 2; OSampleN (Bernoulli (1#2)) 0;
     OSampleN (Bernoulli (1#2)) (-4); OSample (Geometric 1); OSample (Uniform 2 4); OSample (Binomial 0 (1#2))]
    [1#4; 1#2; 1#8; 5#8; 3#8; 7#8; 1#16; 3#4; 1#2]
  = "X:1/4@1|I:4@2|A:[I:2;I:1]@8|A:[]@8|A:[]@8|I:1@8|X:6/2@9|E:InvalidParameterException@9"%string.
Proof. vm_compute. reflexivity. Qed.

(* the hypotheses of the _partial clauses are jointly satisfiable: with log x := 1 - 1/x and
   en z := 1/(1+z) (a rational stand-in with the assumed order properties) the exponential
   inverse-transform statement is obtained outright *)
Example C18_witness_exponential_hyps : forall lam u t, 0 < lam -> 0 <= u -> u < 1 ->
  (exponential_u (fun x => 1 - / x) lam u < t <->
   u < exponential_cdf (fun z => / (1 + z)) lam t).
Proof.
  intros lam u t Hl H0 H1. apply exponential_inverse_cdf; try assumption.
  - exact inv_stand_in_mono.
  - exact inv_stand_in_en.
  - exact inv_stand_in_sign.
Qed.

(* and of the sequence theorem: a constant source 1/2 after every seed *)
Example C18_witness_sequence :
  Forall2 out_ok [OSeed 7; ORand; OSample (Exponential 2); OSampleN (Poisson 3) 2]
    (fst (run_ops (fun _ => 0) (fun _ => 0) 0 (fun _ => 1#20) 50 (fun _ _ => 1#2)
            [OSeed 7; ORand; OSample (Exponential 2); OSampleN (Poisson 3) 2] (start []))).
Proof.
  apply run_ops_ok.
  - intros; apply Qle_refl.
  - intros k i. split; [discriminate | reflexivity].
  - intros i. unfold start, src_of. cbn [src]. destruct i; cbn; split; (discriminate || reflexivity).
Qed.

Print Assumptions C18_support_bernoulli.
Print Assumptions C18_support_uniformint.
Print Assumptions C18_support_uniform.
Print Assumptions C18_support_binomial.
Print Assumptions C18_support_poisson.
Print Assumptions C18_poisson_terminates.
Print Assumptions C18_support_exponential_partial.
Print Assumptions C18_support_geometric.
Print Assumptions C18_support_all_partial.
Print Assumptions C18_gaussian_monotone_partial.
Print Assumptions C18_count.
Print Assumptions C18_sample_multiple_successive.
Print Assumptions C18_inverse_cdf_bernoulli.
Print Assumptions C18_bernoulli_pmf.
Print Assumptions C18_inverse_cdf_uniformint.
Print Assumptions C18_inverse_cdf_uniform_lt.
Print Assumptions C18_inverse_cdf_uniform_le.
Print Assumptions C18_inverse_cdf_uniform_point.
Print Assumptions C18_inverse_cdf_poisson_generic.
Print Assumptions C18_inverse_cdf_poisson.
Print Assumptions C18_inverse_cdf_exponential_partial.
Print Assumptions C18_seed_determines.
Print Assumptions C18_seed_function.
Print Assumptions C18_rand_range_partial.
Print Assumptions C18_sequence_support_partial.
