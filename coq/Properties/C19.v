(* C19 — Optional per-user files fail soft.
   Model: Model/Config.v (+ Model/Currency.v), with the REPAIRED behaviour R1-R4 described there
   (R1-R4 were genuine defects found by this check; they are repaired in /repo by fix: commits, see known_findings.json).
   The exception classes each handler catches come from the regenerated except lists
   (Gen/GenInterp.v) through GenFacts/ConfigFacts.v; the built-in table and the option kinds from
   Gen/GenCurrency.v and Gen/GenConfig.v.  Statements only.

   Domain: a file system is ANY function from paths to the states
   Missing | Directory | Unreadable e | Bytes decodable text  (text: any string), for the
   configuration file, the currency file and the history file wherever the configuration puts
   them; float() is ANY function from field texts to optional rationals and the NFKD/ASCII
   reduction of currency names ANY function on strings; the answers of the
   operating system on writing the history file are arbitrary.  Not modelled: non-ASCII white
   space and digits, 'nan'/'inf' rate texts, special files (FIFOs, devices), races. *)
From Coq Require Import List String ZArith QArith.
From Ka Require Import Model.Config Proofs.CurrencyProofs Proofs.ConfigProofs GenFacts.ConfigFacts.
Local Open Scope string_scope.

(* Whatever the states of the three files, start-up reaches evaluation: no exception escapes the
   two configuration reads, the currency load, the base selection or the unit registration. *)
Theorem C19_starts : forall pf nn fs, exists s, startup pf nn fs = Started s.
Proof. exact (startup_starts handlers_catch_true builtin_table_ok_true). Qed.

(* A line that passes the checks for its option takes effect whatever the other lines are
   (the last such line for the option wins). *)
Theorem C19_valid_settings_survive : forall pf nn fs text pre l post k v,
  fs PConfig = Bytes true text ->
  readlines (universal_newlines text) = (pre ++ l :: post)%list ->
  line_effect l = ESet k v ->
  (forall l' v', In l' post -> line_effect l' <> ESet k v') ->
  exists s, startup pf nn fs = Started s /\ assoc k (st_cfg s) = Some v /\ cfg_get (st_cfg s) k = Some v.
Proof. exact (valid_settings_survive handlers_catch_true builtin_table_ok_true). Qed.

(* Only the first '=' separates: the value of a textual option keeps every further '='. *)
Theorem C19_separator_in_value : forall k0 v0 p,
  contains ch_eq k0 = false -> prop_of (strip k0) = Some p -> cp_num p = false -> cp_bool p = false ->
  line_effect (k0 ++ String ch_eq v0) = ESet (strip k0) (VStr (strip v0))
  /\ count_char ch_eq (strip v0) = count_char ch_eq v0.
Proof. exact separator_in_value. Qed.

(* Missing, a directory, unreadable, undecodable: every option has its default. *)
Theorem C19_defaults_for_unreadable : forall pf nn fs,
  config_unusable (fs PConfig) ->
  exists s, startup pf nn fs = Started s /\ st_cfg s = [] /\
            forall name, cfg_get (st_cfg s) name = option_map default_of (prop_of name).
Proof. exact (defaults_for_unreadable handlers_catch_true builtin_table_ok_true). Qed.

(* Any unusable currency file (missing, directory, unreadable, undecodable, a short line, a bad
   or non-positive rate, no rows) gives the built-in table. *)
Theorem C19_currency_fallback : forall pf c fs,
  currency_unusable pf (fs (path_of c "currency-path")) ->
  exists w, load_currency_data pf c fs = POk (currency_data, false, w).
Proof. exact (currency_fallback handlers_catch_true). Qed.

(* The table in use has positive rates and is not empty; it is the built-in one, or the non-empty
   table the file parses to. *)
Theorem C19_table_in_use : forall pf nn fs s, startup pf nn fs = Started s ->
  rates_positive (st_table s) /\ st_table s <> [] /\
  ((st_from_file s = false /\ st_table s = currency_data) \/
   (st_from_file s = true /\ exists c text,
       fs (path_of c "currency-path") = Bytes true text
       /\ parse_currency_data pf (universal_newlines text) = PTable (st_table s))).
Proof. exact (startup_table handlers_catch_true builtin_table_ok_true). Qed.

(* Base-currency fallback and registration: with no usable base there is no cash dimension;
   otherwise the registration loop returns (no assertion of register_unit fails, no division by
   zero) and every cash unit carries rate(base)/rate(row). *)
Theorem C19_registration_never_raises : forall pf nn fs s, startup pf nn fs = Started s ->
  match st_base s with
  | None => st_reg s = None
  | Some b => exists st bb, st_reg s = Some st /\ In bb (st_table s) /\ c_sym bb = b
                /\ cash_ok (c_rate bb) (st_table s) st
  end.
Proof. exact (startup_registry handlers_catch_true builtin_table_ok_true). Qed.

(* Evaluation can display floats: the effective precision always fits str.format. *)
Theorem C19_precision_formattable : forall pf nn fs s,
  startup pf nn fs = Started s -> format_float (st_cfg s) = POk tt.
Proof. exact (startup_precision_formattable handlers_catch_true props_okb_true). Qed.

(* Loading history (inside and outside load_history's handler) never stops the interpreter. *)
Theorem C19_history_load_never_blocks_start : forall c fs, exists w, readline_load_history c fs = POk w.
Proof. exact (history_load_never_blocks_start handlers_catch_true). Qed.

(* Saving history returns normally in every state of the file and of the operating system. *)
Theorem C19_history_never_blocks_exit : forall c fs w history,
  exists r, save_history c fs w history = POk r.
Proof. exact (save_history_returns handlers_catch_true). Qed.

Theorem C19_session_exits_zero : forall c fs w history,
  exists ws, interpreter_session c fs w history = POk (0%Z, ws).
Proof. exact (session_exits_zero handlers_catch_true). Qed.

(* ---- non-vacuity *)
Definition nl1 : string := String ch_nl "".
Definition ex_pf : pyfloat_t := float_table [("1.0", 1); ("0.5", 1 # 2); ("0", 0); ("2", 2)].

(* a partly invalid configuration: the valid lines take effect, '=' survives in the prompt *)
Example C19_witness_partly_invalid :
  match startup ex_pf ascii_alnum_only (fs_of (Bytes true ("precision = 3" ++ nl1 ++ "prompt = a=b" ++ nl1 ++ "nonsense" ++ nl1
                                          ++ "foo = 1" ++ nl1 ++ "precision = -1" ++ nl1 ++ "save-history = maybe"))
                             Missing Missing Missing "" "") with
  | Started s => cfg_get (st_cfg s) "precision" = Some (VInt 3)
                 /\ cfg_get (st_cfg s) "prompt" = Some (VStr "a=b")
                 /\ st_cfg_warn s = [WUnknown "foo"; WNeg "precision"; WBool "save-history"]
  | Crashed _ => False
  end.
Proof. vm_compute. repeat split. Qed.

(* an unreadable configuration, a currency file with a zero rate, a usable one *)
Example C19_witness_faults :
  (match startup ex_pf ascii_alnum_only (fs_of (Unreadable EOSError)
                              (Bytes true ("usd,usdollar,1.0" ++ nl1 ++ "eur,euro,0" ++ nl1)) Directory Missing "" "") with
   | Started s => st_cfg s = [] /\ st_from_file s = false /\ List.length (st_table s) = List.length currency_data
   | Crashed _ => False end)
  /\ (match startup ex_pf ascii_alnum_only (fs_of Missing
                              (Bytes true ("usd,usdollar,1.0" ++ nl1 ++ "eur,euro,0.5" ++ nl1)) Directory Missing "" "") with
   | Started s => st_from_file s = true /\ st_table s = [("usd", "usdollar", 1); ("eur", "euro", 1 # 2)]
                  /\ st_base s = Some "eur"
   | Crashed _ => False end).
Proof. vm_compute. repeat split. Qed.

(* the handler test is not trivially true: a handler for ValueError would not catch what a
   directory in place of the file raises, and the model would then crash *)
Example C19_witness_handlers_matter :
  is_subclass "IsADirectoryError" "ValueError" = false
  /\ is_subclass "IsADirectoryError" "OSError" = true
  /\ is_subclass "UnicodeDecodeError" "OSError" = false
  /\ try_ "no.such.function" (PRaise "OSError" : pres unit) (fun _ => POk tt) = PRaise "OSError".
Proof. vm_compute. repeat split. Qed.

(* history: a directory in place of the file; a NUL in a history line *)
Example C19_witness_history :
  interpreter_session [] (fs_of Missing Missing Directory Missing "" "")
     {| we_parent_exists := true; we_makedirs := None; we_open := None; we_write := None |} ["1+1"]
  = POk (0%Z, [WHistoryLoad; WHistorySave])
  /\ add_history (String ch_nul "abc") = PRaise "ValueError"
  /\ readline_load_history [] (fs_of Missing Missing (Bytes true (String ch_nul "abc" ++ nl1 ++ "2+2" ++ nl1)) Missing "" "")
     = POk [].
Proof. vm_compute. repeat split. Qed.

Print Assumptions C19_starts.
Print Assumptions C19_valid_settings_survive.
Print Assumptions C19_separator_in_value.
Print Assumptions C19_defaults_for_unreadable.
Print Assumptions C19_currency_fallback.
Print Assumptions C19_table_in_use.
Print Assumptions C19_registration_never_raises.
Print Assumptions C19_precision_formattable.
Print Assumptions C19_history_load_never_blocks_start.
Print Assumptions C19_history_never_blocks_exit.
Print Assumptions C19_session_exits_zero.
