(* C04 — Magnitudes under units: linear/affine conversion, operand order respected.
   Statements only. *)
From Coq Require Import ZArith QArith List.
From Ka Require Import Model.Num Model.Qty Proofs.QtyProofs.
Import ListNotations.

(* For every quantity expression whose units have int/Fraction factors and offsets (an int
   factor other than 1 used with a non-negative exponent) and whose numeric leaves are in
   C01's class: the magnitude delivered is EXACTLY what ordinary rational arithmetic gives
   after replacing x U by x*factor(U)+offset(U), operands in their written order, `to V`
   mapping back through V's factor and offset — as an int or a reduced fraction. *)
Theorem C04_exact : forall n e, rational_expr e ->
  forall v, qeval n e = Ok v ->
  exists q, mag_spec e = MVal q /\ toQ (qmag v) == q /\ canonical (qmag v) /\ exact (qmag v).
Proof. exact qeval_magnitude. Qed.

Theorem C04_integral_as_int : forall n e v q z, rational_expr e -> qeval n e = Ok v ->
  mag_spec e = MVal q -> q == inject_Z z -> qmag v = NInt z.
Proof. exact qeval_integral. Qed.

(* Consequences (stated on the specification; C04_exact transfers them to the evaluator). *)
Theorem C04_to_self : forall e s x, mag_spec e = MVal x -> ~ sig_factor s == 0 ->
  exists q, mag_spec (QConv (QTag e s) s) = MVal q /\ q == x.
Proof. exact spec_to_self. Qed.
Theorem C04_roundtrip : forall e s1 s2 x, mag_spec e = MVal x ->
  ~ sig_factor s1 == 0 -> ~ sig_factor s2 == 0 ->
  exists q, mag_spec (QConv (QTag (QConv (QTag e s1) s2) s2) s1) = MVal q /\ q == x.
Proof. exact spec_roundtrip. Qed.
Theorem C04_halve : forall e s x, mag_spec e = MVal x -> ~ sig_factor s == 0 -> sig_offset s == 0 ->
  exists q, mag_spec (QConv (QBin QDiv (QTag e s) (QLit (ALit 2))) s) = MVal q /\ q == x / 2.
Proof. exact spec_halve. Qed.
Theorem C04_distrib_add : forall e1 e2 s1 s2 x y,
  mag_spec e1 = MVal x -> mag_spec e2 = MVal y -> ~ sig_factor s1 == 0 ->
  sig_offset s1 == 0 -> sig_offset s2 == 0 ->
  exists q, mag_spec (QConv (QBin QAdd (QTag e1 s1) (QTag e2 s2)) s1) = MVal q
            /\ q == x + (sig_factor s2 * y) / sig_factor s1.
Proof. exact spec_distrib_add. Qed.
Theorem C04_distrib_scale : forall e k s1 s2 x,
  mag_spec e = MVal x -> ~ sig_factor s2 == 0 -> sig_offset s1 == 0 -> sig_offset s2 == 0 ->
  exists q, mag_spec (QConv (QBin QMul (QLit (ALit k)) (QTag e s1)) s2) = MVal q
            /\ q == inject_Z k * ((sig_factor s1 * x) / sig_factor s2).
Proof. exact spec_distrib_scale. Qed.
Theorem C04_offset_units : forall x s1 s2, ~ sig_factor s2 == 0 ->
  exists q, mag_spec (QConv (QTag (QLit (ALit x)) s1) s2) = MVal q
            /\ q == (sig_factor s1 * inject_Z x + sig_offset s1 - sig_offset s2) / sig_factor s2.
Proof. exact spec_offset_units. Qed.

(* C04_float_partial: for units whose factor is a float (deg, in, ft, acre, lb, …, all
   currencies) or an int factor under a negative exponent, the evaluator works in floats; the
   model carries the ideal rational value and the implementation is compared with it within
   1e-9 relative by the correspondence.  No theorem about rounding is claimed. *)

(* Non-vacuity: 25 degC to degF is exactly 77, through the Fraction offsets of the registry. *)
Definition u_degC := {| ud := [1]%Z; um := NInt 1; uo := NFrac (5463#20) |}.
Definition u_degF := {| ud := [1]%Z; um := NFrac (5#9); uo := NFrac (45967#180) |}.
Example C04_witness :
  rational_expr (QConv (QTag (QLit (ALit 25)) ([(u_degC,1%Z)], [])) ([(u_degF,1%Z)], []))
  /\ qeval 1 (QConv (QTag (QLit (ALit 25)) ([(u_degC,1%Z)], [])) ([(u_degF,1%Z)], [])) = Ok (VN (NInt 77)).
Proof.
  split; [|vm_compute; reflexivity].
  cbn [rational_expr]. split; [split|]; try discriminate;
    intros u0 e0 H; cbn in H; destruct H as [H|[]]; injection H as <- <-;
    unfold exact_unit_for; cbn; repeat split; auto.
Qed.

Print Assumptions C04_exact.
Print Assumptions C04_integral_as_int.
Print Assumptions C04_to_self.
Print Assumptions C04_roundtrip.
Print Assumptions C04_halve.
Print Assumptions C04_distrib_add.
Print Assumptions C04_distrib_scale.
Print Assumptions C04_offset_units.
