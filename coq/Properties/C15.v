(* C15 — placeholder while the proofs are being written. *)
From Ka Require Import Model.Display.
