(* C15 — Displayed text denotes the value, and the re-entry text round-trips.
   Statements only; each is closed by [exact <lemma>] (Proofs/DisplayProofs.v).
   [display p bf v] is the line display_result writes for the value v at precision p
   (bf = execute's brackets_for_frac), [reentry_text p v] is
   stringify_result(v, brackets_for_frac=True), the text the GUI puts back into the input line. *)
From Coq Require Import ZArith QArith Qabs List String.
From Ka Require Import Model.Num Model.Display Proofs.DisplayProofs.
From Ka Require Import Gen.GenUnits.
From Ka Require Model.Calendar Model.Instant.
Import ListNotations.
Local Open Scope string_scope.

(* Integers print in full: an independent reader (optional '-', Horner over the digit
   characters, nothing left over) gets the integer back, for every z (no size bound). *)
Theorem C15_int_text : forall p bf z,
  display p bf (VNum (NInt z)) = show_Z z /\ Z_of_text (show_Z z) = Some z.
Proof. exact display_int. Qed.

(* Fractions: the text before the approximation is "n/d" when |f| < 1 and the mixed form
   "w n/d" otherwise; read back (sign written on w, applying to the whole) it denotes f,
   with 0 < n/d < 1 in the mixed form and n/d in lowest terms, for every canonical fraction. *)
Theorem C15_fraction_text : forall p bf q,
  Qred q = q -> (1 < Qden q)%positive ->
  display p bf (VNum (NFrac q)) = prettify_frac q false ++ " " ++ "    (" ++ approx_text p q ++ ")"
  /\ exists w n d,
       mixed_parts (prettify_frac q false) = Some (w, n, d)
       /\ d = Zpos (Qden q)
       /\ (mixed_denote w n d == q)%Q
       /\ Z.gcd n d = 1%Z
       /\ match w with
          | None => n = Qnum q /\ (Z.abs n < d)%Z
          | Some a => a <> 0%Z /\ (0 < n < d)%Z /\ ((a < 0)%Z <-> (q < 0)%Q)
          end.
Proof. exact display_fraction. Qed.

(* ... followed by a decimal approximation: when float(f) is a non-zero double g, g is within
   half a quantum (2^(e2-52), e2 the binary exponent of |f|, at least -1022) of f and the
   parenthesised text is g rounded to p significant digits. *)
Theorem C15_fraction_approx : forall p q g,
  (1 <= p)%Z -> float_of_Q q = Some g -> ~ (g == 0)%Q ->
  approx_text p q = fmt_g p g
  /\ (Qabs (q - g) <= (1 # 2) * quantum (Qabs q))%Q
  /\ exists v e k,
       value_of_text (approx_text p q) = Some v
       /\ sig_digits (approx_text p q) = Some k /\ (k <= Z.to_nat p)%nat
       /\ (bpow 10 e <= Qabs v)%Q /\ (Qabs v < bpow 10 (e + 1))%Q
       /\ (Qabs (v - g) <= (1 # 2) * bpow 10 (e - p + 1))%Q.
Proof. exact approx_text_denotes. Qed.

(* The digit-generation core of '%.{p}g': for every p >= 1 and every x > 0 the mantissa m has
   exactly p digits and m * 10^(e-p+1) is within half a unit of the last digit of x. *)
Theorem C15_round_sig : forall p x,
  (1 <= p)%Z -> (0 < x)%Q ->
  let m := fst (round_sig p x) in
  let e := snd (round_sig p x) in
  (10 ^ (p - 1) <= m < 10 ^ p)%Z
  /\ (Qabs (x - inject_Z m * bpow 10 (e - p + 1)) <= (1 # 2) * bpow 10 (e - p + 1))%Q.
Proof. exact round_sig_spec. Qed.

(* Floats: for every precision p >= 1 and every non-zero value x (the exact value of the
   double, of any magnitude) the displayed text — plain or exponent form, after zero
   stripping — reads as a decimal v with at most p significant digits and
   |v - x| <= 1/2 * 10^(e-p+1), e being the decimal exponent of v. *)
Theorem C15_float_precision : forall p bf x,
  (1 <= p)%Z -> ~ (x == 0)%Q ->
  display p bf (VNum (NFlt x)) = fmt_g p x
  /\ exists v e k,
       value_of_text (fmt_g p x) = Some v
       /\ sig_digits (fmt_g p x) = Some k /\ (k <= Z.to_nat p)%nat
       /\ (bpow 10 e <= Qabs v)%Q /\ (Qabs v < bpow 10 (e + 1))%Q
       /\ (Qabs (v - x) <= (1 # 2) * bpow 10 (e - p + 1))%Q.
Proof. exact display_float. Qed.

(* Quantities: the magnitude text, a space, the unit text; the unit text read back (words
   separated by single spaces, each "name" or "name^exp") is exactly the list of non-zero
   dimensions as live base-unit names with their exponents, in base-unit order. *)
Theorem C15_quantity_text : forall p bf mag dims,
  display p bf (VQty mag dims)
  = match mag with
    | NFrac q => prettify_frac q bf ++ " " ++ prettified dims
                 ++ "    (" ++ approx_text p q ++ " " ++ prettified dims ++ ")"
    | NInt z => show_Z z ++ " " ++ prettified dims
    | NFlt x => fmt_g p x ++ " " ++ prettified dims
    end
  /\ dims_of_text (prettified dims) = Some (nonzero_dims base_units dims)
  /\ nonzero_dims base_units dims
     = filter (fun ne => negb (snd ne =? 0)%Z) (combine base_units dims).
Proof. exact display_quantity. Qed.

(* Arrays and intervals are printed element-wise (elements through stringify_result). *)
Theorem C15_elementwise : forall p bf,
  (forall l, display p bf (VArr l) = "{" ++ String.concat ", " (map (stringify p false) l) ++ "}")
  /\ (forall l b, stringify p b (VArr l) = "{" ++ String.concat ", " (map (stringify p b) l) ++ "}")
  /\ (forall a b, display p bf (VIvl a b) = "[" ++ stringify p false a ++ ", " ++ stringify p false b ++ "]")
  /\ (forall a b c, stringify p c (VIvl a b) = "[" ++ stringify p false a ++ ", " ++ stringify p false b ++ "]")
  /\ (forall n, stringify p false (VNum n) = num_text p n false)
  /\ (forall mag dims, stringify p false (VQty mag dims) = num_text p mag false ++ " " ++ prettified dims).
Proof. exact display_elementwise. Qed.

(* Re-entry, PARTIAL: the local facts about the re-entry text of every kind — an integer is
   its digit string (read back exactly); a fraction is "(n/d)" denoting it; a float is its
   '%.{p}g' text (C15_float_precision bounds its reading); a quantity is the magnitude's
   re-entry text, a space, and unit words that read back as its non-zero dimensions (not
   empty when some dimension is non-zero); arrays and intervals are element-wise; a string
   without quotes/backslashes is read back by the lexer's read_string; an instant is its ISO
   text between '#'.  MISSING: the composition with the lexer, parser and evaluator
   ("execute(reentry_text v) = v"), which needs C11/C02 and an evaluator model; it is
   established by the correspondence run (harness/props/c15.py), not by a theorem. *)
Theorem C15_reentry_partial : forall p,
  (forall z, reentry_text p (VNum (NInt z)) = show_Z z /\ Z_of_text (show_Z z) = Some z)
  /\ (forall q, reentry_text p (VNum (NFrac q)) = "(" ++ frac_text q ++ ")"
                /\ mixed_parts (frac_text q) = Some (None, Qnum q, Zpos (Qden q))
                /\ (inject_Z (Qnum q) / inject_Z (Zpos (Qden q)) == q)%Q)
  /\ (forall x, reentry_text p (VNum (NFlt x)) = fmt_g p x)
  /\ (forall mag dims,
        reentry_text p (VQty mag dims) = reentry_text p (VNum mag) ++ " " ++ prettified dims
        /\ dims_of_text (prettified dims) = Some (nonzero_dims base_units dims)
        /\ (nonzero_dims base_units dims <> [] -> prettified dims <> ""))
  /\ (forall l, reentry_text p (VArr l) = "{" ++ String.concat ", " (map (reentry_text p) l) ++ "}")
  /\ (forall a b, reentry_text p (VIvl a b) = "[" ++ stringify p false a ++ ", " ++ stringify p false b ++ "]")
  /\ (forall s, reentry_text p (VStr s) = quote ++ s ++ quote
                /\ (plain_string s = true -> read_string (reentry_text p (VStr s)) = Some s))
  /\ (forall y mo d h mi s us tz,
        reentry_text p (VInst y mo d h mi s us tz) = "#" ++ iso_text y mo d h mi s us tz ++ "#"
        /\ display p false (VInst y mo d h mi s us tz) = iso_text y mo d h mi s us tz).
Proof. exact reentry_local. Qed.

(* Re-entry of a naive instant (no time zone), through the evaluator's instant_from_iso as
   modelled and proved for C17 (Model/Instant.v): the text between the '#' is read back as an
   instant whose display is the same ISO text.  (The lexer step — read_instant takes the text
   between the two '#' — and zoned instants are left to the correspondence.) *)
Theorem C15_reentry_instant_partial : forall p y mo d h mi s us,
  Calendar.valid_year y = true -> Calendar.valid_date y mo d = true -> Instant.valid_time h mi s us = true ->
  reentry_text p (VInst y mo d h mi s us None) = "#" ++ Instant.iso_text y mo d h mi s us ++ "#"
  /\ exists i, Instant.instant_from_iso (Instant.iso_text y mo d h mi s us) = Ok i
               /\ Instant.in_range i = true
               /\ Instant.show_instant i = display p false (VInst y mo d h mi s us None).
Proof. exact reentry_instant. Qed.

(* Non-vacuity: concrete texts of every kind (evaluated in the kernel). *)
Example C15_witness_float :
  fmt_g 6 (1 # 3) = "0.333333" /\ fmt_g 6 (12345678 # 10) = "1.23457e+06"
  /\ fmt_g 6 (9999995 # 10) = "1e+06" /\ fmt_g 1 (- 25 # 100) = "-0.2"
  /\ fmt_g 17 (3602879701896397 # 36028797018963968) = "0.10000000000000001"
  /\ fmt_g 6 (1 # 100000) = "1e-05" /\ fmt_g 0 (15 # 10) = "2"
  /\ value_of_text "1.23457e+06" = Some (1 * inject_Z 123457 * bpow 10 (6 - 5))%Q.
Proof. vm_compute. repeat split. Qed.

Example C15_witness_display :
  display 6 false (VNum (NFrac (-7 # 2))) = "-3 1/2     (-3.5)"
  /\ display 6 false (VQty (NFrac (1 # 2)) [0; 1; -2; 0; 0; 0; 0; 0]%Z) = "1/2 m s^-2    (0.5 m s^-2)"
  /\ display 6 true (VQty (NFrac (1 # 2)) [0; 1; -2; 0; 0; 0; 0; 0]%Z) = "(1/2) m s^-2    (0.5 m s^-2)"
  /\ display 2 false (VIvl (VNum (NInt 0)) (VNum (NFlt (20794415416798357 # 10000000000000000)))) = "[0, 2.1]"
  /\ reentry_text 6 (VArr [VQty (NFrac (1 # 2)) [0; 1; -2; 0; 0; 0; 0; 0]%Z; VStr "a";
                           VIvl (VNum (NInt 1)) (VNum (NFlt (7 # 10)));
                           VInst 2020 1 2 3 4 5 678 (Some (-19800000000)%Z)])
     = "{(1/2) m s^-2, ""a"", [1, 0.7], #2020-01-02T03:04:05.000678-05:30#}"
  /\ mixed_parts "-3 1/2" = Some (Some (-3)%Z, 1%Z, 2%Z)
  /\ dims_of_text "kg m^2 s^-3" = Some [("kg", 1%Z); ("m", 2%Z); ("s", (-3)%Z)]
  /\ reentry_text 6 (VQty (NInt 3) [0; 0; 0; 0; 0; 0; 0; 0]%Z) = "3 ".
Proof. vm_compute. repeat split. Qed.

Print Assumptions C15_int_text.
Print Assumptions C15_fraction_text.
Print Assumptions C15_fraction_approx.
Print Assumptions C15_round_sig.
Print Assumptions C15_float_precision.
Print Assumptions C15_quantity_text.
Print Assumptions C15_elementwise.
Print Assumptions C15_reentry_partial.
Print Assumptions C15_reentry_instant_partial.
