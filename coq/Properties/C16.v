(* C16 — Elementary functions: accurate in-domain, rejected outside, never NaN or inf.
   Statements only; each is closed by [exact <lemma>] (Proofs/ElemProofs.v, GenFacts/ElemFacts.v).

   Reading guide.  [elem ext f args] is one dispatch() of an elementary function on arguments
   that are numbers of any kind, lazy combinatorics ([AN c]: [coerce c] is the value the body
   receives — the resolved value of a lazy one) or quantities ([AQ mag dim]: the body receives
   the base-unit magnitude and the result keeps [dim]).  [arg_value a = Ok x] names that value,
   [arg_wrap a] says how the result is wrapped.  [ext : call -> fval] is the C library (libm
   through CPython's wrappers); every theorem holds FOR ALL [ext], i.e. whatever libm returns;
   two of them assume the stated facts of CPython about it, none assumes accuracy.
   Floats are idealised ([NFlt q], q the exact value); the double range enters only through
   [dbl_ovf] = 2^1024 - 2^970 (conversion overflow) and [underflows] (<= 2^-1075). *)
From Coq Require Import QArith Qround Qpower Qabs.
From Ka Require Import Model.Elem Model.Exec Proofs.ElemProofs GenFacts.ElemFacts.

(* floor(x) <= x < floor(x)+1, an integer, for every kind; on a quantity: on the magnitude *)
Theorem C16_floor : forall ext a x, arg_value a = Ok x ->
  exists z, elem ext (E1 FFloor) [a] = EVal (wrapv (arg_wrap a) (NInt z))
            /\ inject_Z z <= toQ x /\ toQ x < inject_Z z + 1.
Proof. exact floor_spec. Qed.

(* ceil(x)-1 < x <= ceil(x) *)
Theorem C16_ceil : forall ext a x, arg_value a = Ok x ->
  exists z, elem ext (E1 FCeil) [a] = EVal (wrapv (arg_wrap a) (NInt z))
            /\ inject_Z z - 1 < toQ x /\ toQ x <= inject_Z z.
Proof. exact ceil_spec. Qed.

(* |round(x) - x| <= 1/2, and a tie goes to the even neighbour *)
Theorem C16_round : forall ext a x, arg_value a = Ok x ->
  exists z, elem ext (E1 FRound) [a] = EVal (wrapv (arg_wrap a) (NInt z))
            /\ Qabs (inject_Z z - toQ x) <= 1 # 2
            /\ (Qabs (inject_Z z - toQ x) == 1 # 2 -> Z.even z = true).
Proof. exact round_spec. Qed.

(* int truncates toward zero *)
Theorem C16_int : forall ext a x, arg_value a = Ok x ->
  exists z, elem ext (E1 FInt) [a] = EVal (wrapv (arg_wrap a) (NInt z))
            /\ Qabs (inject_Z z) <= Qabs (toQ x) /\ Qabs (toQ x) < Qabs (inject_Z z) + 1
            /\ (0 <= toQ x -> (0 <= z)%Z) /\ (toQ x <= 0 -> (z <= 0)%Z).
Proof. exact int_spec. Qed.

(* abs is exact on every kind (and keeps an exact kind exact) *)
Theorem C16_abs : forall ext a x, arg_value a = Ok x ->
  exists v, elem ext (E1 FAbs) [a] = EVal (wrapv (arg_wrap a) v)
            /\ toQ v == Qabs (toQ x) /\ (exact x -> exact v) /\ canonical v.
Proof. exact abs_spec. Qed.

(* float(x): the (idealised) value inside the double range, OverflowError beyond it *)
Theorem C16_float : forall ext a x, arg_value a = Ok x ->
  (dbl_ok x -> exists v, elem ext (E1 FFloat) [a] = EVal (wrapv (arg_wrap a) v) /\ toQ v == toQ x) /\
  (is_flt x = false -> dbl_ovf <= Qabs (toQ x) -> elem ext (E1 FFloat) [a] = EErr OverflowError).
Proof. exact float_spec. Qed.

(* Outside the real domain: an error, never a value, for every numeric kind, lazy value and
   (one-argument functions) quantity. *)
Theorem C16_domain_rejected : forall ext,
  (forall a x, arg_value a = Ok x -> toQ x < 0 ->
     elem ext (E1 FSqrt) [a] = EErr KaRuntimeError) /\
  (forall g a x, In g [FLn; FLog2; FLog10] -> arg_value a = Ok x -> toQ x <= 0 ->
     elem ext (E1 g) [a] = EErr KaRuntimeError) /\
  (forall c1 c2 x b, coerce c1 = Ok x -> coerce c2 = Ok b ->
     toQ x <= 0 \/ toQ b <= 0 \/ toQ b == 1 ->
     elem ext ELog [AN c1; AN c2] = EErr KaRuntimeError) /\
  (forall c1 c2 x y, coerce c1 = Ok x -> coerce c2 = Ok y ->
     toQ x < 0 -> is_integral y = false ->
     elem ext EPow [AN c1; AN c2] = EErr KaRuntimeError) /\
  (forall c1 c2 x y, coerce c1 = Ok x -> coerce c2 = Ok y ->
     toQ x == 0 -> toQ y < 0 ->
     elem ext EPow [AN c1; AN c2] = EErr ZeroDivisionError \/
     (dbl_ovf <= Qabs (toQ y) /\ elem ext EPow [AN c1; AN c2] = EErr OverflowError)).
Proof. exact domain_rejected_spec. Qed.

(* ... and each of these classes is one that eval_parse_tree/execute() catches and prints with
   status 1 — computed from the REGENERATED except lists (ZeroDivisionError and OverflowError
   through EvalError). *)
Theorem C16_rejections_diagnosed : forall e, In e elem_classes ->
  classify_eval (show_exn e) = Diagnosed "1".
Proof. exact elem_classes_diagnosed. Qed.

(* Whatever the arguments, an error outcome of these functions is a diagnosed one, given that
   CPython's wrappers fail on an in-domain call only with OverflowError (range error). *)
Theorem C16_errors_diagnosed : forall ext, ext_raises_only_overflow ext ->
  forall f args e, Forall resolvable args -> elem ext f args = EErr e ->
  In e elem_classes /\ classify_eval (show_exn e) = Diagnosed "1".
Proof. exact elem_errors_diagnosed. Qed.

(* The guards reject nothing inside the domain: there the result is what libm returns for
   exactly the mathematical argument(s), passed through simplify_number. *)
Theorem C16_in_domain_accepted : forall ext,
  (forall a x, arg_value a = Ok x -> dbl_ok x ->
     elem ext (E1 FSin) [a] = emap (wrapv (arg_wrap a)) (deliver ext (PCall (CSin (toQ x)))) /\
     elem ext (E1 FCos) [a] = emap (wrapv (arg_wrap a)) (deliver ext (PCall (CCos (toQ x)))) /\
     elem ext (E1 FTan) [a] = emap (wrapv (arg_wrap a)) (deliver ext (PCall (CTan (toQ x)))) /\
     (0 <= toQ x ->
      elem ext (E1 FSqrt) [a] = emap (wrapv (arg_wrap a)) (deliver ext (PCall (CSqrt (toQ x)))))) /\
  (forall a x, arg_value a = Ok x -> 0 < toQ x -> log_ok x ->
     elem ext (E1 FLn) [a] = emap (wrapv (arg_wrap a)) (deliver ext (PCall (CLog (toQ x) float_e))) /\
     elem ext (E1 FLog10) [a] = emap (wrapv (arg_wrap a)) (deliver ext (PCall (CLog (toQ x) 10))) /\
     elem ext (E1 FLog2) [a] = emap (wrapv (arg_wrap a)) (deliver ext (PCall (CLog (toQ x) 2)))) /\
  (forall c1 c2 x b, coerce c1 = Ok x -> coerce c2 = Ok b ->
     0 < toQ x -> 0 < toQ b -> ~ toQ b == 1 -> log_ok x -> log_ok b ->
     elem ext ELog [AN c1; AN c2] = emap VN (deliver ext (PCall (CLog (toQ x) (toQ b))))) /\
  (forall c1 c2 x y, coerce c1 = Ok x -> coerce c2 = Ok y ->
     (0 <= toQ x \/ is_integral y = true) -> ~ (toQ x == 0 /\ toQ y < 0) ->
     dbl_ok x -> dbl_ok y -> pow_is_float x y ->
     elem ext EPow [AN c1; AN c2] = emap VN (deliver ext (PCall (CPow (toQ x) (toQ y))))).
Proof. exact in_domain_accepted_spec. Qed.

(* Conversely the guards suffice: libm is only ever called inside the function's real domain
   (so no complex result and, by CPython's contract, no NaN can come back). *)
Theorem C16_calls_in_domain : forall f args c w,
  eplan f args = (PCall c, w) -> call_in_domain c.
Proof. exact eplan_calls. Qed.

(* int ** non-negative int is the exact integer; Fraction ** int (either sign) is the exact
   reduced rational; int ** negative int is a float power pow(x, n). *)
Theorem C16_pow_exact : forall ext,
  (forall z n, (0 <= n)%Z ->
     deliver ext (plan_pow (NInt z) (NInt n)) = EVal (NInt (z ^ n))
     /\ inject_Z (z ^ n) == Qpower (inject_Z z) n) /\
  (forall q n, (0 <= n)%Z \/ ~ q == 0 ->
     exists v, deliver ext (plan_pow (NFrac q) (NInt n)) = EVal v
               /\ toQ v == Qpower q n /\ exact v /\ canonical v) /\
  (forall z n, (n < 0)%Z -> z <> 0%Z ->
     Qabs (inject_Z z) < dbl_ovf -> Qabs (inject_Z n) < dbl_ovf ->
     plan_pow (NInt z) (NInt n) = PCall (CPow (inject_Z z) (inject_Z n))).
Proof. exact pow_exact_spec. Qed.

(* PARTIAL.  What is proved: (1) an infinity returned by libm never becomes a value —
   simplify_number's int(whole) raises OverflowError; (2) if libm returns no NaN inside the real
   domain, no dispatch of an elementary function delivers a NaN (by C16_calls_in_domain every
   call is inside it); (3) an int/Fraction argument beyond the double range makes sin cos tan
   sqrt an OverflowError.  A value [EVal v] carries a rational, so it is finite by construction.
   What is missing: the statement covers one dispatch of an elementary function, not every
   value the whole evaluator can produce (float + - * / on operators, arrays, probability code);
   those are covered only by the correspondence runs of harness/props/c16.py (no 'nan'/'inf'
   in any output) and rest on the same simplify_number step. *)
Theorem C16_finite_invariant_partial : forall ext,
  (forall c, ext c = FInf -> deliver ext (PCall c) = EErr OverflowError) /\
  (ext_no_nan ext -> forall f args, elem ext f args <> ENaN) /\
  (forall a x g, arg_value a = Ok x -> In g [FSin; FCos; FTan; FSqrt] ->
     is_flt x = false -> dbl_ovf <= toQ x -> elem ext (E1 g) [a] = EErr OverflowError).
Proof. exact finite_invariant_spec. Qed.

(* C16_accuracy_partial — NOT a theorem.  That sin cos tan sqrt log pow agree with the real
   functions to 1e-12 is a fact about glibc's libm at run time; Coq cannot prove it for the C
   library.  The model's results are [ext c] for the call [c] the theorems above pin down; the
   check validates [ext] per sample against an independent 200-bit evaluation (mpmath), and
   Proofs/ElemOracle.v certifies a few of those reference values with the interval tactic. *)

(* The live registry dispatches these names exactly as Model/Elem.v does. *)
Theorem C16_registry_matches_model : elem_registry_ok = true.
Proof. exact elem_registry_ok_true. Qed.

(* ---- non-vacuity *)
Definition ext0 : call -> fval := fun _ => Fin (1 # 3).
Definition m1 : dimvec := [0; 1; 0; 0; 0; 0; 0; 0]%Z.

Example C16_hypotheses_satisfiable : ext_raises_only_overflow ext0 /\ ext_no_nan ext0.
Proof. split; [intros c e _ H; discriminate H | intros c _ H; discriminate H]. Qed.

Example C16_witness_rounding :
  elem ext0 (E1 FFloor) [AQ (NFrac (7 # 2)) m1] = EVal (VQ (NInt 3) m1)
  /\ elem ext0 (E1 FAbs) [AN (lazy_factorial 3)] = EVal (VN (NInt 6))
  /\ elem ext0 (E1 FRound) [AN (CNum (NFlt (5 # 2)))] = EVal (VN (NInt 2))
  /\ elem ext0 (E1 FRound) [AN (CNum (NFrac (-1 # 2)))] = EVal (VN (NInt 0))
  /\ elem ext0 (E1 FInt) [AN (CNum (NFrac (-7 # 2)))] = EVal (VN (NInt (-3)))
  /\ elem ext0 (E1 FCeil) [AN (CNum (NFlt (-1 # 2)))] = EVal (VN (NInt 0)).
Proof. vm_compute. repeat split. Qed.

Example C16_witness_domain :
  elem ext0 (E1 FSqrt) [AN (CNum (NInt (-1)))] = EErr KaRuntimeError
  /\ elem ext0 ELog [AN (CNum (NInt 8)); AN (CNum (NInt 0))] = EErr KaRuntimeError
  /\ elem ext0 ELog [AN (CNum (NInt 8)); AN (CNum (NInt (-2)))] = EErr KaRuntimeError
  /\ elem ext0 ELog [AN (CNum (NInt 8)); AN (CNum (NInt 1))] = EErr KaRuntimeError
  /\ elem ext0 EPow [AN (CNum (NInt (-8))); AN (CNum (NFrac (1 # 3)))] = EErr KaRuntimeError
  /\ elem ext0 EPow [AN (CNum (NInt 0)); AN (CNum (NInt (-1)))] = EErr ZeroDivisionError
  /\ elem ext0 (E1 FSqrt) [AN (CNum (NInt (10 ^ 400)))] = EErr OverflowError
  /\ elem ext0 (E1 FSqrt) [AQ (NInt 4) m1] = EVal (VQ (NFlt (1 # 3)) m1)
  /\ elem (fun _ => FInf) (E1 FSqrt) [AN (CNum (NInt 4))] = EErr OverflowError
  /\ elem ext0 EPow [AN (CNum (NFrac (1 # 2))); AN (CNum (NInt (-2)))] = EVal (VN (NInt 4))
  /\ elem ext0 ELog [AQ (NInt 4) m1; AN (CNum (NInt 2))] = EErr NoMatchingFunctionSignatureError.
Proof. vm_compute. repeat split. Qed.

Print Assumptions C16_floor.
Print Assumptions C16_ceil.
Print Assumptions C16_round.
Print Assumptions C16_int.
Print Assumptions C16_abs.
Print Assumptions C16_float.
Print Assumptions C16_domain_rejected.
Print Assumptions C16_rejections_diagnosed.
Print Assumptions C16_errors_diagnosed.
Print Assumptions C16_in_domain_accepted.
Print Assumptions C16_calls_in_domain.
Print Assumptions C16_pow_exact.
Print Assumptions C16_finite_invariant_partial.
Print Assumptions C16_registry_matches_model.
