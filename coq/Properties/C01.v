(* C01 — Integer and fraction arithmetic is exact and canonical.
   Statements only; each is closed by [exact <lemma>]. *)
From Coq Require Import QArith Qround Qpower Qabs.
From Ka Require Import Model.Num Proofs.NumProofs.

(* Every in-class expression evaluates to exactly its rational value, as an int
   or a reduced fraction (never a float). No bound on depth or operand size. *)
Theorem C01_exact : forall e q, denote e = Val q ->
  exists v, aeval e = Ok v /\ toQ v == q /\ canonical v /\ exact v.
Proof. exact aeval_exact. Qed.

(* Integral values are delivered as integers. *)
Theorem C01_integral_as_int : forall e q z,
  denote e = Val q -> q == inject_Z z -> aeval e = Ok (NInt z).
Proof. exact aeval_integral. Qed.

(* Inside the class no evaluation ever yields a float. *)
Theorem C01_never_float : forall e v,
  denote e <> OutOfClass -> aeval e = Ok v -> exact v /\ canonical v.
Proof. exact aeval_never_float. Qed.

(* Division or modulo by zero is an error (ZeroDivisionError, which
   eval_parse_tree converts to a diagnosed EvalError) and never a value. *)
Theorem C01_div_zero : forall e, denote e = DivZero -> aeval e = Raise ZeroDivisionError.
Proof. exact aeval_divzero. Qed.
Theorem C01_div_zero_no_value : forall e v, denote e = DivZero -> aeval e <> Ok v.
Proof. exact aeval_divzero_no_value. Qed.

(* Modulo is floored: the result takes the sign of the divisor. *)
Theorem C01_mod_sign : forall x y, ~ y == 0 ->
  let r := x - y * inject_Z (Qfloor (x / y)) in
  (0 < y -> 0 <= r /\ r < y) /\ (y < 0 -> y < r /\ r <= 0).
Proof. exact mod_sign. Qed.

(* Non-vacuity: a non-trivial in-class tree and a DivZero tree. *)
Example C01_witness :
  denote (ABin Add (ABin Pow (ABin Mod (ABin Div (ALit 3) (ALit 2)) (AUn UNeg (ALit 1))) (ALit 2))
                   (ABin Div (ASci 1 40) (ALit 4))) <> OutOfClass
  /\ aeval (ABin Add (ABin Pow (ABin Mod (ABin Div (ALit 3) (ALit 2)) (AUn UNeg (ALit 1))) (ALit 2))
                   (ABin Div (ASci 1 40) (ALit 4)))
     = Ok (NFrac (10000000000000000000000000000000000000001 # 4))
  /\ denote (ABin Div (ALit 1) (ABin Sub (ALit 2) (ALit 2))) = DivZero.
Proof. vm_compute. repeat split; congruence. Qed.

Print Assumptions C01_exact.
Print Assumptions C01_integral_as_int.
Print Assumptions C01_never_float.
Print Assumptions C01_div_zero.
Print Assumptions C01_div_zero_no_value.
Print Assumptions C01_mod_sign.
