(* C09 — Comparisons are coherent: trichotomy, duality, negation, and 0/1 results.
   Statements only.  [val01] reads a 0/1 result as an integer. *)
From Coq Require Import ZArith QArith List.
From Ka Require Import Model.Num Model.Qty Model.Comb Model.Cmp Proofs.CombProofs Proofs.CmpProofs.
Local Open Scope Z_scope.

(* numbers of any numeric kind (int, fraction, float by exact value): exactly one of
   a<b, a==b, a>b is 1, and each result is the number 0 or 1 *)
Theorem C09_trichotomy : forall a b,
  exists l e g, n_lt a b = Ok l /\ n_eq a b = Ok e /\ n_gt a b = Ok g
    /\ is01 l /\ is01 e /\ is01 g /\ val01 l + val01 e + val01 g = 1.
Proof. exact num_trichotomy. Qed.
Theorem C09_leq : forall a b, exists l e le, n_lt a b = Ok l /\ n_eq a b = Ok e /\ n_le a b = Ok le
  /\ val01 le = Z.max (val01 l) (val01 e).
Proof. exact num_leq. Qed.
Theorem C09_dual : forall a b, n_gt a b = n_lt b a /\ n_ge a b = n_le b a.
Proof. exact num_dual. Qed.
Theorem C09_neq : forall a b, exists e ne, n_eq a b = Ok e /\ n_ne a b = Ok ne /\ val01 ne = 1 - val01 e.
Proof. exact num_neq. Qed.
Theorem C09_zero_one : forall c a b, exists r, qcmp_num c a b = Ok r /\ is01 r.
Proof. intros c a b. exact (num_cmp_01 a b c). Qed.

(* lazy combinatorics compare as their eager values *)
Theorem C09_lazy : forall c a b ea eb, rel a ea -> rel b eb -> l_cmp c a b = qcmp_num c ea eb.
Proof. exact lazy_cmp_is_eager. Qed.

(* quantities of one dimension in any units, and a number with a dimensionless quantity *)
Theorem C09_quantity_trichotomy : forall n a b,
  veqb (snd (lift_q n a)) (snd (lift_q n b)) = true ->
  exists l e g, q_cmp n QLt a b = Ok (VN l) /\ q_cmp n QEq a b = Ok (VN e) /\ q_cmp n QGt a b = Ok (VN g)
    /\ is01 l /\ is01 e /\ is01 g /\ val01 l + val01 e + val01 g = 1.
Proof. exact qty_trichotomy. Qed.
Theorem C09_quantity_coherent : forall n a b,
  veqb (snd (lift_q n a)) (snd (lift_q n b)) = true ->
  veqb (snd (lift_q n b)) (snd (lift_q n a)) = true ->
  q_cmp n QGt a b = q_cmp n QLt b a /\ q_cmp n QGe a b = q_cmp n QLe b a
  /\ (exists e ne, q_cmp n QEq a b = Ok (VN e) /\ q_cmp n QNe a b = Ok (VN ne) /\ val01 ne = 1 - val01 e)
  /\ (exists l e le, q_cmp n QLt a b = Ok (VN l) /\ q_cmp n QEq a b = Ok (VN e) /\ q_cmp n QLe a b = Ok (VN le)
        /\ val01 le = Z.max (val01 l) (val01 e)).
Proof. exact qty_coherent. Qed.
(* equality compares physical size (the base-unit magnitude), not spelling *)
Theorem C09_physical_eq : forall n m1 m2 d,
  q_cmp n QEq (VQ m1 d) (VQ m2 d) = Ok (VN (NInt 1)) <-> (toQ m1 == toQ m2)%Q.
Proof. exact qty_eq_physical. Qed.

(* instants (microsecond counts) *)
Theorem C09_instant_trichotomy : forall a b,
  is01 (i_cmp QLt a b) /\ is01 (i_cmp QEq a b) /\ is01 (i_cmp QGt a b)
  /\ val01 (i_cmp QLt a b) + val01 (i_cmp QEq a b) + val01 (i_cmp QGt a b) = 1.
Proof. exact inst_trichotomy. Qed.
Theorem C09_instant_coherent : forall a b,
  i_cmp QGt a b = i_cmp QLt b a /\ i_cmp QGe a b = i_cmp QLe b a
  /\ val01 (i_cmp QNe a b) = 1 - val01 (i_cmp QEq a b)
  /\ val01 (i_cmp QLe a b) = Z.max (val01 (i_cmp QLt a b)) (val01 (i_cmp QEq a b)).
Proof. exact inst_coherent. Qed.

(* membership yields the number 0 or 1, and 1 exactly when some element equals x *)
Theorem C09_in_zero_one : forall x l, is01 (in_array x l).
Proof. exact in_array_01. Qed.
Theorem C09_in_spec : forall x l, in_array x l = NInt 1 <-> exists e, In e l /\ (toQ x == toQ e)%Q.
Proof. exact in_array_spec. Qed.

Example C09_witness :
  n_lt (NFrac (1#2)) (NInt 1) = Ok (NInt 1) /\ n_eq (NFlt (1#2)) (NFrac (1#2)) = Ok (NInt 1)
  /\ q_cmp 1 QEq (VQ (NInt 1) [1]) (VQ (NInt 1) [1]) = Ok (VN (NInt 1)).
Proof. vm_compute. repeat split. Qed.

Print Assumptions C09_trichotomy.
Print Assumptions C09_leq.
Print Assumptions C09_dual.
Print Assumptions C09_neq.
Print Assumptions C09_zero_one.
Print Assumptions C09_lazy.
Print Assumptions C09_quantity_trichotomy.
Print Assumptions C09_quantity_coherent.
Print Assumptions C09_physical_eq.
Print Assumptions C09_instant_trichotomy.
Print Assumptions C09_instant_coherent.
Print Assumptions C09_in_zero_one.
Print Assumptions C09_in_spec.
