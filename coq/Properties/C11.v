(* C11 — Lexing is a faithful longest-match segmentation with exact literal values.
   Statements only; each is closed by [exact <lemma>].

   The lexer is Model/Lexer.v ([ka_tokenise] = [tokenise] on the regenerated CONST_TOKENS /
   ALPHA_TOKENS).  Texts are lists of Unicode code points of ANY length; token spans are
   code-point indices.  str.isspace / isalpha / isnumeric are arbitrary functions subject only
   to [classes_ok] (Lexer.class_ok_b at every character: whitespace is not significant, not
   alphabetic, not numeric; ASCII letters are alphabetic; an alphabetic significant character
   is an identifier character; identifier-start characters are not numeric; ASCII digits are
   numeric; '.' is not) — the harness checks this on all 1,114,112 code points of CPython.
   The table facts (GenFacts/TokenTableFacts.v) are re-proved against the live table each run. *)
From Coq Require Import NArith ZArith QArith Qpower List Bool.
From Ka Require Import Model.Lexer Proofs.LexerProofs GenFacts.TokenTableFacts.
Import ListNotations.
Local Open Scope nat_scope.
Local Open Scope list_scope.

(* The scan loop always terminates within its fuel (1 + length of the input). *)
Theorem C11_total : forall isspace isalpha isnumeric s i,
  ka_tokenise isspace isalpha isnumeric s <> LErr LexOutOfFuel i.
Proof. exact (fun sp al nu => tokenise_never_out_of_fuel sp al nu gen_ctoks gen_atoks ctoks_nonempty). Qed.

(* Faithful segmentation: spans are increasing, non-empty and inside the input; everything
   between them (and before the first, after the last) is whitespace; gaps and lexemes
   reassemble the input exactly; each token's lexeme is what its tag says (a constant token
   is its own spelling, an identifier's name is its lexeme, a string/instant value is the
   lexeme without its delimiters); and every token is what read_token returns at its span. *)
Theorem C11_faithful : forall isspace isalpha isnumeric s ts,
  ka_tokenise isspace isalpha isnumeric s = LOk ts ->
  spans_ok 0 (List.length s) ts
  /\ gaps_ws isspace s 0 ts
  /\ reassemble s 0 ts = s
  /\ (forall t, In t ts -> lexeme_ok gen_ctoks (sub s (t_begin t) (t_end t)) (t_tag t) (t_val t))
  /\ (forall t, In t ts -> token_at isalpha isnumeric gen_ctoks gen_atoks s t).
Proof. exact (fun sp al nu => tokenise_faithful_full sp al nu gen_ctoks gen_atoks ctoks_nonempty). Qed.

(* Whitespace insensitivity.  [in_gap 0 ts (length s) p]: position p is before the first
   token, between two consecutive tokens, or after the last.  Inserting any whitespace string
   there gives the same sequence of (tag, value).  NO side condition on the tokens is needed:
   the cases where the lexer does look past a token ("1." before ".", "to" before a letter,
   "1" before "e5", "<" before "=") are exactly the cases where the position is not a boundary
   of the tokenisation of [s]; the proof shows that a whitespace character at a boundary can
   never make a longer match succeed nor an accepted match fail (LexerProofs.read_token_ins,
   read_num_ins: the only sensitive spot, between the two dots of "1..", lies inside the
   token ".."). *)
Theorem C11_ws_insensitive : forall isspace isalpha isnumeric, classes_ok isspace isalpha isnumeric ->
  forall ws s ts a b,
  ka_tokenise isspace isalpha isnumeric s = LOk ts -> s = a ++ b ->
  in_gap 0 ts (List.length s) (List.length a) ->
  Forall (fun c => isspace c = true) ws ->
  exists ts', ka_tokenise isspace isalpha isnumeric (a ++ ws ++ b) = LOk ts'
              /\ map untag ts' = map untag ts
              /\ in_gap 0 ts' (List.length ws + List.length s) (List.length a).
Proof.
  exact (fun sp al nu Hc => tokenise_ws_insert sp al nu gen_ctoks gen_atoks Hc ctoks_nonempty
                              atoks_are_the_alphabetic_ctoks ctoks_head_is_range).
Qed.

(* ... and any number of such insertions, each at a boundary of the then-current tokenisation. *)
Theorem C11_ws_insensitive_iter : forall isspace isalpha isnumeric, classes_ok isspace isalpha isnumeric ->
  forall s s', ws_steps isspace isalpha isnumeric gen_ctoks gen_atoks s s' ->
  forall ts, ka_tokenise isspace isalpha isnumeric s = LOk ts ->
  exists ts', ka_tokenise isspace isalpha isnumeric s' = LOk ts' /\ map untag ts' = map untag ts.
Proof.
  exact (fun sp al nu Hc => tokenise_ws_steps sp al nu gen_ctoks gen_atoks Hc ctoks_nonempty
                              atoks_are_the_alphabetic_ctoks ctoks_head_is_range).
Qed.

(* Longest constant token.  In the regenerated table no token listed earlier is a proper
   prefix of a later one ([ctoks_strict_prefix_order]); hence the first table hit at a
   position is the longest table entry that matches there (with the keyword-boundary test). *)
Theorem C11_table_prefix_order : order_exceptions gen_ctoks = [].
Proof. exact ctoks_strict_prefix_order. Qed.

Theorem C11_longest_const : forall isspace isalpha isnumeric, classes_ok isspace isalpha isnumeric ->
  forall r t n v, ka_read_token isalpha isnumeric r = RTok (TConst t) n v ->
  n = List.length t /\ In t gen_ctoks /\ entry_hit isalpha gen_atoks t r = true
  /\ forall t', In t' gen_ctoks -> entry_hit isalpha gen_atoks t' r = true ->
                List.length t' <= List.length t.
Proof.
  exact (fun sp al nu Hc => const_token_longest sp al nu gen_ctoks gen_atoks Hc ctoks_order_ok).
Qed.

(* Maximal munch: an identifier token extends to the first non-identifier character; a number
   token is never followed by a digit (its digit runs are not cut short). *)
Theorem C11_maximal_munch : forall isspace isalpha isnumeric s ts t,
  ka_tokenise isspace isalpha isnumeric s = LOk ts -> In t ts ->
  (t_tag t = TVar -> hd_fails ident_char (skipn (t_end t) s))
  /\ (t_tag t = TNum -> hd_fails is_digit (skipn (t_end t) s)).
Proof. exact (fun sp al nu => tokenise_maximal_munch sp al nu gen_ctoks gen_atoks ctoks_nonempty). Qed.

Theorem C11_maximal_munch_ident : forall isalpha isnumeric r n v,
  ka_read_token isalpha isnumeric r = RTok TVar n v ->
  v = VText (firstn n r) /\ forallb ident_char (firstn n r) = true
  /\ (exists c cs, firstn n r = c :: cs /\ ident_start c = true)
  /\ hd_fails ident_char (skipn n r).
Proof. exact (fun al nu => ident_maximal al nu gen_ctoks gen_atoks). Qed.

Theorem C11_maximal_munch_number : forall r n v, read_num r = NOk n v ->
  1 <= n <= List.length r /\ hd_fails is_digit (skipn n r).
Proof. exact number_maximal. Qed.

(* Literal values.  [pos_value base digits] is positional notation (sum of digit_i * base^(number
   of digits after it)), defined independently of the lexer's left-to-right accumulation. *)
(* integers: for every non-empty digit string followed by something that cannot continue a number *)
Theorem C11_int_value : forall isspace isalpha isnumeric, classes_ok isspace isalpha isnumeric ->
  forall A rest, forallb is_digit A = true -> A <> [] -> number_stop rest ->
  ka_read_token isalpha isnumeric (A ++ rest)
  = RTok TNum (List.length A) (VLit (LInt (pos_value 10 (map dval A)))).
Proof. exact (fun sp al nu Hc => int_token sp al nu gen_ctoks gen_atoks Hc). Qed.

(* 0x / 0o / 0b / 0d integers: the value in the stated base when every digit is below the base,
   BadNumberError otherwise — for every hex-digit string *)
Theorem C11_based_value : forall bc hs rest, is_base_char bc = true -> hs <> [] ->
  forallb is_hex hs = true -> hd_fails is_hex rest ->
  read_num (48%N :: bc :: hs ++ rest)
  = if forallb (fun c => (hex_val c <? base_of bc)%Z) hs
    then NOk (2 + List.length hs) (LInt (pos_value (base_of bc) (map hex_val hs)))
    else NBad.
Proof. exact based_value. Qed.

(* integer mantissa, scientific notation: exactly m * 10^(+-k), as an int or a reduced Fraction *)
Theorem C11_sci_value : forall A sg es rest, forallb is_digit A = true -> A <> [] ->
  forallb is_digit es = true -> es <> [] -> hd_fails is_digit rest -> sign_ok sg ->
  exists v, read_num (A ++ ch_e :: sg ++ es ++ rest)
            = NOk (List.length A + (1 + List.length sg + List.length es)) v
    /\ lit_exact v
    /\ lit_Q v == inject_Z (pos_value 10 (map dval A))
                  * Qpower 10 (if sign_neg sg then (- pos_value 10 (map dval es))%Z
                               else pos_value 10 (map dval es)).
Proof. exact sci_value. Qed.

(* decimals.  PARTIAL: the model's value is the exact rational of the spelling (tagged LFlt);
   that the implementation's double is within relative 1e-15 of it is the correctly-rounded
   float() of CPython — external, tied by the correspondence run, not proved here.  Proved:
   one token over the whole spelling, the exact rational, and BadNumberError exactly when
   that rational rounds to infinity. *)
Theorem C11_decimal_value_partial : forall D1 D2 rest,
  forallb is_digit D1 = true -> forallb is_digit D2 = true -> is_nil D1 && is_nil D2 = false ->
  hd_fails is_digit rest -> (D2 = [] -> starts_dot rest = false) -> exp_match rest = None ->
  let q0 := decimal_exact D1 D2 None in
  ((flt_overflow <= q0)%Q /\ read_num (D1 ++ ch_dot :: D2 ++ rest) = NBad)
  \/ (~ (flt_overflow <= q0)%Q /\ exists q, q == q0 /\
        read_num (D1 ++ ch_dot :: D2 ++ rest) = NOk (List.length D1 + 1 + List.length D2) (LFlt q)).
Proof. exact decimal_value. Qed.

Theorem C11_decimal_sci_value_partial : forall D1 D2 sg es rest,
  forallb is_digit D1 = true -> forallb is_digit D2 = true -> is_nil D1 && is_nil D2 = false ->
  forallb is_digit es = true -> es <> [] -> hd_fails is_digit rest -> sign_ok sg ->
  let q0 := decimal_exact D1 D2 (Some (sign_neg sg, es)) in
  let n := List.length D1 + 1 + List.length D2 + (1 + List.length sg + List.length es) in
  ((flt_overflow <= q0)%Q /\ read_num (D1 ++ ch_dot :: D2 ++ ch_e :: sg ++ es ++ rest) = NBad)
  \/ (~ (flt_overflow <= q0)%Q /\ exists q, q == q0 /\
        read_num (D1 ++ ch_dot :: D2 ++ ch_e :: sg ++ es ++ rest) = NOk n (LFlt q)).
Proof. exact decimal_sci_value. Qed.

(* a..b for ALL non-empty digit strings a, b: number, range, number *)
Theorem C11_range_lex : forall isspace isalpha isnumeric, classes_ok isspace isalpha isnumeric ->
  forall A B, forallb is_digit A = true -> A <> [] -> forallb is_digit B = true -> B <> [] ->
  ka_tokenise isspace isalpha isnumeric (A ++ [ch_dot; ch_dot] ++ B)
  = LOk [ mkTok TNum 0 (List.length A) (VLit (LInt (pos_value 10 (map dval A))));
          mkTok (TConst [ch_dot; ch_dot]) (List.length A) (List.length A + 2) VNone;
          mkTok TNum (List.length A + 2) (List.length A + 2 + List.length B)
                (VLit (LInt (pos_value 10 (map dval B)))) ].
Proof.
  exact (fun sp al nu Hc => tokenise_range sp al nu gen_ctoks gen_atoks Hc
                              atoks_are_the_alphabetic_ctoks ctoks_head_is_range).
Qed.

(* Keywords: "to" / "in" followed by nothing or a non-alphabetic character are the keyword
   tokens; followed by an alphabetic character they start an identifier, which is longer than
   the keyword when that character is an identifier character (a letter, or μ). *)
Theorem C11_keyword_to : forall isspace isalpha isnumeric, classes_ok isspace isalpha isnumeric ->
  forall rest, let kw := utf8_of_string "to" in
  (next_not_alpha isalpha rest = true ->
     ka_read_token isalpha isnumeric (kw ++ rest) = RTok (TConst kw) (List.length kw) VNone)
  /\ (next_not_alpha isalpha rest = false ->
        ka_read_token isalpha isnumeric (kw ++ rest)
        = RTok TVar (List.length kw + List.length (takew ident_char rest))
                    (VText (kw ++ takew ident_char rest))
        /\ (forall c x, rest = c :: x -> ident_char c = true ->
              List.length kw < List.length kw + List.length (takew ident_char rest))).
Proof.
  exact (fun sp al nu Hc rest =>
    read_token_keyword sp al nu gen_ctoks gen_atoks Hc (utf8_of_string "to") rest
      (proj1 keywords_nonempty) (proj1 keywords_are_letters) (scan_to al rest)).
Qed.

Theorem C11_keyword_in : forall isspace isalpha isnumeric, classes_ok isspace isalpha isnumeric ->
  forall rest, let kw := utf8_of_string "in" in
  (next_not_alpha isalpha rest = true ->
     ka_read_token isalpha isnumeric (kw ++ rest) = RTok (TConst kw) (List.length kw) VNone)
  /\ (next_not_alpha isalpha rest = false ->
        ka_read_token isalpha isnumeric (kw ++ rest)
        = RTok TVar (List.length kw + List.length (takew ident_char rest))
                    (VText (kw ++ takew ident_char rest))
        /\ (forall c x, rest = c :: x -> ident_char c = true ->
              List.length kw < List.length kw + List.length (takew ident_char rest))).
Proof.
  exact (fun sp al nu Hc rest =>
    read_token_keyword sp al nu gen_ctoks gen_atoks Hc (utf8_of_string "in") rest
      (proj2 keywords_nonempty) (proj1 (proj2 keywords_are_letters)) (scan_in al rest)).
Qed.

(* Unclosed string / instant: the reported index is the index of the opening delimiter, and
   no closing delimiter follows it; conversely an opening delimiter without a closing one is
   reported at its own index. *)
Theorem C11_unclosed_string : forall isspace isalpha isnumeric s i,
  ka_tokenise isspace isalpha isnumeric s = LErr UnclosedStringError i ->
  nth_error s i = Some ch_quote /\ str_end (skipn (S i) s) = None.
Proof. exact (fun sp al nu => tokenise_unclosed_string sp al nu gen_ctoks gen_atoks ctoks_nonempty). Qed.

Theorem C11_unclosed_instant : forall isspace isalpha isnumeric s i,
  ka_tokenise isspace isalpha isnumeric s = LErr UnclosedInstantError i ->
  nth_error s i = Some ch_hash /\ ~ In ch_hash (skipn (S i) s).
Proof. exact (fun sp al nu => tokenise_unclosed_instant sp al nu gen_ctoks gen_atoks ctoks_nonempty). Qed.

Theorem C11_unclosed : forall isspace isalpha isnumeric, classes_ok isspace isalpha isnumeric ->
  forall W t, Forall (fun c => isspace c = true) W ->
  (str_end t = None ->
     ka_tokenise isspace isalpha isnumeric (W ++ ch_quote :: t) = LErr UnclosedStringError (List.length W))
  /\ (~ In ch_hash t ->
     ka_tokenise isspace isalpha isnumeric (W ++ ch_hash :: t) = LErr UnclosedInstantError (List.length W)).
Proof. exact (fun sp al nu Hc => tokenise_reports_unclosed sp al nu gen_ctoks gen_atoks Hc). Qed.

Theorem C11_no_quote_is_unclosed : forall t, ~ In ch_quote t -> str_end t = None.
Proof. exact str_end_no_quote. Qed.

(* The three regex pattern strings of tokens.py are literally the ones the automaton implements. *)
Theorem C11_regexes_pinned :
  GenTokens.var_regex = "[a-zA-Zμ€$£¥][_a-zA-Z0-9μ€$£¥]*"%string
  /\ GenTokens.based_int_regex = "0(x|o|b|d)([0-9a-fA-F]+)"%string
  /\ GenTokens.num_regex_flags = 96%Z.
Proof. exact (conj var_regex_pinned (conj based_int_regex_pinned (proj2 num_regex_pinned))). Qed.

(* The hypothesis of the theorems above is satisfiable: a concrete triple of classes (Latin-1
   whitespace; letters, μ, é alphabetic; digits and ² numeric) satisfies it at every code point. *)
Theorem C11_hypothesis_satisfiable : classes_ok w_space w_alpha w_numeric.
Proof. exact classes_ok_witness. Qed.

(* Non-vacuity: the model run on concrete inputs (rendered by Lexer.show_lres:
   tag,begin,end,value; C<k> = k-th constant token; T:<code points>). *)
Local Open Scope string_scope.
Example C11_ex_range : ex_lex "12..345" = "K N,0,2,I:12 C0,2,4,- N,4,7,I:345".
Proof. vm_compute. reflexivity. Qed.
Example C11_ex_keywords :
  ex_lex "in t" = "K C29,0,2,- V,3,4,T:116" /\ ex_lex "int" = "K V,0,3,T:105.110.116"
  /\ ex_lex "to1" = "K C24,0,2,- N,2,3,I:1" /\ ex_lex "toé" = "E UnknownTokenError 2"
  /\ ex_lex "5μm" = "K N,0,1,I:5 V,1,3,T:956.109".
Proof. vm_compute. repeat split. Qed.
Example C11_ex_values :
  ex_lex "0x1F" = "K N,0,4,I:31" /\ ex_lex "0b102" = "E BadNumberError 0" /\ ex_lex "0b0b1" = "E BadNumberError 0"
  /\ ex_lex "1.5e3" = "K N,0,5,X:1500/1" /\ ex_lex "25e-3" = "K N,0,5,F:1/40" /\ ex_lex "10e-1" = "K N,0,5,F:1/1"
  /\ ex_lex "1.23457e+06" = "K N,0,11,X:1234570/1" /\ ex_lex "15.0e308" = "E BadNumberError 0"
  /\ ex_lex "1." = "K N,0,2,X:1/1" /\ ex_lex "1e+" = "K N,0,1,I:1 V,1,2,T:101 C14,2,3,-".
Proof. vm_compute. repeat split. Qed.
Example C11_ex_unclosed :
  ex_lex " ""abc" = "E UnclosedStringError 1" /\ ex_lex "x #2024" = "E UnclosedInstantError 2"
  /\ ex_lex """a\""b""" = "K S,0,6,T:97.92.34.98".
Proof. vm_compute. repeat split. Qed.
Example C11_ex_ws :
  ex_lex "x<=1..n" = "K V,0,1,T:120 C6,1,3,- N,3,4,I:1 C0,4,6,- V,6,7,T:110"
  /\ ex_lex "x <=  1 .. n " = "K V,0,1,T:120 C6,2,4,- N,6,7,I:1 C0,8,10,- V,11,12,T:110".
Proof. vm_compute. repeat split. Qed.

Print Assumptions C11_total.
Print Assumptions C11_faithful.
Print Assumptions C11_ws_insensitive.
Print Assumptions C11_ws_insensitive_iter.
Print Assumptions C11_table_prefix_order.
Print Assumptions C11_longest_const.
Print Assumptions C11_maximal_munch.
Print Assumptions C11_maximal_munch_ident.
Print Assumptions C11_maximal_munch_number.
Print Assumptions C11_int_value.
Print Assumptions C11_based_value.
Print Assumptions C11_sci_value.
Print Assumptions C11_decimal_value_partial.
Print Assumptions C11_decimal_sci_value_partial.
Print Assumptions C11_range_lex.
Print Assumptions C11_keyword_to.
Print Assumptions C11_keyword_in.
Print Assumptions C11_unclosed_string.
Print Assumptions C11_unclosed_instant.
Print Assumptions C11_unclosed.
Print Assumptions C11_no_quote_is_unclosed.
Print Assumptions C11_regexes_pinned.
Print Assumptions C11_hypothesis_satisfiable.
