(* C10 — Overload resolution: unique most specific signature, order-independent.
   The registry and the class lattice (Gen/GenFunctions.v) are regenerated from the live
   ka.functions on every run; the computed facts in GenFacts/RegistryFacts.v are re-proved
   against them each time.  Statements only. *)
From Coq Require Import List Permutation String.
From Ka Require Import Model.Dispatch Proofs.DispatchProofs GenFacts.RegistryFacts.
Local Open Scope nat_scope.

(* General (any registry): the left-to-right scan returns the least signature whatever the
   order of the matching list. *)
Theorem C10_scan_finds_least : forall ms ms' L,
  NoDup (map fst ms) -> Permutation ms ms' -> In L ms -> is_least ms L = true ->
  closest_match ms' = Some L /\ closest_match ms = Some L.
Proof. exact closest_order_independent. Qed.

(* This registry: for every name and every kind tuple up to the largest registered arity + 1,
   the applicable signatures have a least element, unique as such, and it is the one chosen
   under every permutation of the per-name list. *)
Theorem C10_unique_most_specific : forall name sigs sigs' ks,
  sigs_of name = Some sigs -> Permutation sigs sigs' ->
  List.length ks <= S (max_arity sigs) -> Forall (fun k => k < nkinds) ks ->
  lookup sigs ks <> [] ->
  exists L, In L (lookup sigs ks) /\ is_least (lookup sigs ks) L = true
            /\ closest_match (lookup sigs ks) = Some L
            /\ closest_match (lookup sigs' ks) = Some L.
Proof. exact (resolution_order_independent registry_ok_true). Qed.

(* Kind tuples of ANY length: the chosen signature does not depend on registration order. *)
Theorem C10_order_independent : forall name sigs sigs' ks,
  sigs_of name = Some sigs -> Permutation sigs sigs' -> Forall (fun k => k < nkinds) ks ->
  closest_match (lookup sigs' ks) = closest_match (lookup sigs ks).
Proof. exact (resolution_order_independent_all registry_ok_true varargs_ok_true). Qed.

(* Widening is accepted, narrowing never: read off the regenerated isinstance table. *)
Theorem C10_widening_only : widening_ok = true.
Proof. exact widening_ok_true. Qed.
Theorem C10_no_narrowing : no_narrowing_ok = true.
Proof. exact no_narrowing_ok_true. Qed.

(* A body is selected only for a known name, a matching signature and declared, well-typed
   keywords; every other call is rejected (with the four error classes) before any body. *)
Theorem C10_reject_before_body : forall name ks kws impl i,
  dispatch_decision name ks kws = Run impl i ->
  exists sigs s, sigs_of name = Some sigs
    /\ closest_match (lookup sigs ks) = Some (i, s)
    /\ sig_matches s ks = true
    /\ check_kws s kws = None /\ impl = g_impl s.
Proof. exact dispatch_runs_only_when_valid. Qed.
Theorem C10_keywords_checked : forall s kws, check_kws s kws = None ->
  forall k vk, In (k, vk) kws -> exists t, assoc k (g_kws s) = Some t /\ isinst vk t = true.
Proof. exact check_kws_none. Qed.

(* Non-vacuity: a call with several applicable signatures (int / int). *)
Example C10_witness :
  exists sigs, sigs_of "/" = Some sigs
    /\ 2 <= List.length (lookup sigs [kind_ix "int"; kind_ix "int"])
    /\ dispatch_decision "/" [kind_ix "int"; kind_ix "int"] [] <> Reject NoMatchingFunctionSignatureError.
Proof. eexists. split; [reflexivity|]. vm_compute. split; [repeat constructor|discriminate]. Qed.

Print Assumptions C10_scan_finds_least.
Print Assumptions C10_unique_most_specific.
Print Assumptions C10_order_independent.
Print Assumptions C10_widening_only.
Print Assumptions C10_no_narrowing.
Print Assumptions C10_reject_before_body.
Print Assumptions C10_keywords_checked.
