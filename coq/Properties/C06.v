(* C06 — Every input ends in a value or a diagnosed error — never a crash or a hang.
   Statements only.  The except lists of execute() / eval_parse_tree and the `%` command table
   are REGENERATED from the source (Gen/GenInterp.v) on every run, so removing or narrowing a
   handler breaks C06_*_diagnosed below.
   PARTIAL by nature: a theorem can cover only the exception paths of the code that is modelled.
   Here: the three stages' own error classes, the arithmetic / quantity / lazy-combinatorics
   evaluators (all trees), error()'s caret arithmetic and the command dispatcher.  Every other
   function body is covered by the correspondence/fuzz run (harness/props/c06.py), and wall-clock,
   memory, matplotlib rendering, now()/today() and readline are runtime behaviour no model shows. *)
From Coq Require Import List String Arith.
From Ka Require Import Model.Num Model.Qty Model.Comb Model.Exec Proofs.ExecProofs.
From Ka Require Import Proofs.ExecExtProofs Proofs.ExecExtProofs2.
From Ka Require Model.Interval Model.Arrays Model.Prob Model.Elem Proofs.ElemProofs
                Model.Instant Model.Sampling Model.Session.
Local Open Scope nat_scope.
Local Open Scope string_scope.

(* every lexical error class is caught by execute()'s first try statement and gives status 1 *)
Theorem C06_lex_diagnosed : forall c, In c lex_classes -> classify_stage 0 c = Diagnosed "1".
Proof. exact lex_errors_diagnosed. Qed.
(* ParsingError and the KaRuntimeError of a bad instant literal: second try statement *)
Theorem C06_parse_diagnosed : forall c, In c parse_classes -> classify_stage 1 c = Diagnosed "1".
Proof. exact parse_errors_diagnosed. Qed.
(* every Ka error class, and ZeroDivisionError / OverflowError through eval_parse_tree, raised
   during evaluation is caught and gives status 1 *)
Theorem C06_eval_diagnosed : forall x, In x ka_eval_classes -> classify_eval (show_exn x) = Diagnosed "1".
Proof. exact eval_errors_diagnosed. Qed.
(* and nothing else is: signature matching is the only guard before a body runs *)
Theorem C06_host_errors_escape : forall x, In x host_classes -> exists c, classify_eval (show_exn x) = Escaped c.
Proof. exact host_errors_escape. Qed.
(* except stack exhaustion, which every recursing stage reports (nesting or length beyond the Python stack:
   100 nested brackets, a sum of 990 terms; the run checks the depths themselves under the default limit) *)
Theorem C06_stack_exhaustion_diagnosed :
  classify_stage 1 "RecursionError" = Diagnosed "1" /\ classify_eval "RecursionError" = Diagnosed "1"
  /\ classify_display "RecursionError" = Diagnosed "1".
Proof. exact stack_exhaustion_diagnosed. Qed.

(* the modelled evaluators raise only diagnosed classes: for ALL expression trees the outcome
   is a value or a status-1 diagnostic (Unmodelled = the model declines to predict: float powers) *)
Theorem C06_arith_total_partial : forall e, aeval e <> Raise Unmodelled -> acceptable (outcome_of (aeval e)).
Proof. exact aeval_outcome. Qed.
Theorem C06_quantity_total_partial : forall n e, qeval n e <> Raise Unmodelled -> acceptable (outcome_of (qeval n e)).
Proof. exact qeval_outcome. Qed.
Theorem C06_lazy_total : forall e, acceptable (outcome_of (ceval_top e)).
Proof. exact ceval_outcome. Qed.

(* a position marker lies inside the input: the caret column is under the context line *)
Theorem C06_caret_inside : forall ctx ind len index, 0 < len -> index <= len ->
  let L := layout ctx ind len index in
  e_low L <= index /\ index <= e_high L /\ e_high L <= len
  /\ ind + e_left_fade L <= e_caret_col L
  /\ e_caret_col L <= ind + e_left_fade L + (e_high L - e_low L)
  /\ (index < len -> e_caret_col L < ind + e_left_fade L + (e_high L - e_low L))
  /\ e_line_len L = ind + e_left_fade L + (e_high L - e_low L) + e_right_fade L.
Proof. exact caret_inside. Qed.
Theorem C06_parse_index_inside : forall ntok begin_of end_of ti len,
  (forall k, k < ntok -> begin_of k <= len /\ end_of k <= len) ->
  parse_error_char_index ntok begin_of end_of ti <= len.
Proof. exact parse_index_inside. Qed.

(* `%` commands: the dispatcher is total (a bare `%` included) and runs only table entries
   with at most one argument; print_unit_info catches the prefix-on-offset-unit error *)
Theorem C06_commands_total : forall words,
  run_cmd words = CmdUnknown
  \/ (exists e g, run_cmd words = CmdArity e g)
  \/ (exists impl args, run_cmd words = CmdRun impl args
        /\ mem_str impl GenFacts.InterpFacts.known_impls = true /\ List.length args <= 1).
Proof. exact run_cmd_total. Qed.

(* ---- the same for the other models of the development (Proofs/ExecExtProofs*.v): for ALL inputs each
   modelled evaluator raises only classes that execute() diagnoses.  Hypotheses, where present, are the
   ones the models themselves carry (Unmodelled = the model declines; fuel excluded where a bound is
   proved; libm raising only OverflowError in-domain; comprehensions with one generator per name). *)
Theorem C06_interval_apply_total_partial : forall (sqrtK : Q -> Q) (logK powK : Q -> Q -> Q) f args,
  Interval.ka_apply sqrtK logK powK f args <> Raise Unmodelled ->
  acceptable (outcome_of (Interval.ka_apply sqrtK logK powK f args)).
Proof. exact IntervalExt.ka_apply_outcome. Qed.
Theorem C06_interval_total_partial : forall (sqrtK : Q -> Q) (logK powK : Q -> Q -> Q) e,
  Interval.eval sqrtK logK powK e <> Raise Unmodelled ->
  acceptable (outcome_of (Interval.eval sqrtK logK powK e)).
Proof. exact IntervalExt.ieval_outcome. Qed.
Theorem C06_range_total : forall lo hi step, acceptable (outcome_of (Arrays.ka_range lo hi step)).
Proof. exact ArraysExt.ka_range_outcome. Qed.
Theorem C06_aggregates_total : forall ndims f l, acceptable (outcome_of (Arrays.run_agg ndims f l)).
Proof. exact ArraysExt.run_agg_outcome. Qed.
Theorem C06_comprehension_relative :
  forall (V E : Type) (setv : string -> V -> E -> E) (as_arr : V -> option (list V))
         (blike : V -> option bool) (P : exn -> Prop) body names gens conds env x,
  List.length names = List.length gens -> P EvalError ->
  (forall en y, body en = Raise y -> P y) ->
  Forall (fun g => forall en y, g en = Raise y -> P y) gens ->
  Forall (fun c => forall en y, c en = Raise y -> P y) conds ->
  Arrays.eval_comprehension V E setv as_arr blike body names gens conds env = Raise x -> P x.
Proof. exact ArraysExt.eval_comprehension_raises_wf. Qed.
Theorem C06_arrays_total_partial : forall ndims e, ArraysExt.comp_wf e ->
  Arrays.run ndims e <> Raise Unmodelled -> acceptable (outcome_of (Arrays.run ndims e)).
Proof. exact ArraysExt.arr_run_outcome. Qed.
Theorem C06_rv_params_total : forall l, acceptable (outcome_of (Prob.make_rv l)).
Proof. exact ProbExt.make_rv_outcome. Qed.
Theorem C06_rv_mean_total : forall l, acceptable (outcome_of (Prob.mean_of l)).
Proof. exact ProbExt.mean_of_outcome. Qed.
Theorem C06_probability_total_partial : forall fo l mk,
  Prob.P_law fo l mk <> Raise Unmodelled -> acceptable (outcome_of (Prob.P_law fo l mk)).
Proof. exact ProbExt.P_law_outcome. Qed.
Theorem C06_elem_total : forall ext, ElemProofs.ext_raises_only_overflow ext ->
  forall f args, acceptable (outcome_of (ElemExt.eout_res (Elem.elem ext f args))).
Proof. exact ElemExt.elem_outcome. Qed.
Theorem C06_instant_literal_total_partial : forall s,
  Instant.instant_from_iso s <> Raise Unmodelled -> acceptable (outcome_of (Instant.instant_from_iso s)).
Proof. exact InstantExt.instant_from_iso_outcome. Qed.
Theorem C06_instant_ops_total_partial : forall s o,
  (do i <- Instant.instant_from_iso s; InstantExt.op_result i o) <> Raise Unmodelled ->
  acceptable (outcome_of (do i <- Instant.instant_from_iso s; InstantExt.op_result i o)).
Proof. exact InstantExt.case_outcome. Qed.
Theorem C06_sampling_total_partial :
  forall (logK erfinvK : Q -> Q) (sqrt2 : Q) (expnegK : Q -> Q) (fuel : nat) (init : Z -> nat -> Q) o s,
  SamplingExt.outv_res (fst (Sampling.run_op logK erfinvK sqrt2 expnegK fuel init o s)) <> Raise OutOfFuel ->
  acceptable (outcome_of (SamplingExt.outv_res (fst (Sampling.run_op logK erfinvK sqrt2 expnegK fuel init o s)))).
Proof. exact SamplingExt.run_op_outcome. Qed.
Theorem C06_session_total_partial : forall ss t,
  fst (Session.run_one ss t) <> Raise Unmodelled -> acceptable (outcome_of (fst (Session.run_one ss t))).
Proof. exact SessionExt.run_one_outcome. Qed.
Theorem C06_session_history_total_partial : forall h st o,
  In o (fst (Session.run_hist h st)) -> o <> Raise Unmodelled -> acceptable (outcome_of o).
Proof. exact SessionExt.run_hist_outcome. Qed.

Example C06_ext_witness :
  outcome_of (Arrays.ka_range (NInt 5) (NInt 1) (NInt 1)) = Diagnosed "1"
  /\ outcome_of (Arrays.ka_range (NInt 1) (NInt 3) (NInt 1)) = Value
  /\ outcome_of (Prob.make_rv (Prob.Binomial 0 (1#2))) = Diagnosed "1"
  /\ outcome_of (Prob.mean_of (Prob.Geometric 0)) = Diagnosed "1"
  /\ outcome_of (Instant.instant_from_iso "2021-02-30") = Diagnosed "1"
  /\ outcome_of (do i <- Instant.instant_from_iso "9999-12-31"; InstantExt.op_result i Instant.OCeil) = Diagnosed "1"
  /\ outcome_of (fst (Session.run_one [Session.Expr (Session.EVar "x")] [])) = Diagnosed "1"
  /\ outcome_of (Arrays.run 0 (Arrays.EAgg Arrays.AMedian (Arrays.EArr []))) = Diagnosed "1".
Proof. vm_compute. repeat split. Qed.

Example C06_witness :
  outcome_of (aeval (ABin Div (ALit 1) (ALit 0))) = Diagnosed "1"
  /\ outcome_of (aeval (ABin Div (ALit 1) (ALit 2))) = Value
  /\ run_cmd [] = CmdUnknown /\ run_cmd ["u"; "kilodegC"] = CmdRun "ka.interpret.print_unit_info" ["kilodegC"].
Proof. vm_compute. repeat split. Qed.

Print Assumptions C06_lex_diagnosed.
Print Assumptions C06_parse_diagnosed.
Print Assumptions C06_eval_diagnosed.
Print Assumptions C06_host_errors_escape.
Print Assumptions C06_stack_exhaustion_diagnosed.
Print Assumptions C06_arith_total_partial.
Print Assumptions C06_quantity_total_partial.
Print Assumptions C06_lazy_total.
Print Assumptions C06_caret_inside.
Print Assumptions C06_parse_index_inside.
Print Assumptions C06_commands_total.
Print Assumptions C06_interval_apply_total_partial.
Print Assumptions C06_interval_total_partial.
Print Assumptions C06_range_total.
Print Assumptions C06_aggregates_total.
Print Assumptions C06_comprehension_relative.
Print Assumptions C06_arrays_total_partial.
Print Assumptions C06_rv_params_total.
Print Assumptions C06_rv_mean_total.
Print Assumptions C06_probability_total_partial.
Print Assumptions C06_elem_total.
Print Assumptions C06_instant_literal_total_partial.
Print Assumptions C06_instant_ops_total_partial.
Print Assumptions C06_sampling_total_partial.
Print Assumptions C06_session_total_partial.
Print Assumptions C06_session_history_total_partial.
