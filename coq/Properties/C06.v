(* C06 — Every input ends in a value or a diagnosed error — never a crash or a hang.
   Statements only.  The except lists of execute() / eval_parse_tree and the `%` command table
   are REGENERATED from the source (Gen/GenInterp.v) on every run, so removing or narrowing a
   handler breaks C06_*_diagnosed below.
   PARTIAL by nature: a theorem can cover only the exception paths of the code that is modelled.
   Here: the three stages' own error classes, the arithmetic / quantity / lazy-combinatorics
   evaluators (all trees), error()'s caret arithmetic and the command dispatcher.  Every other
   function body is covered by the correspondence/fuzz run (harness/props/c06.py), and wall-clock,
   memory, matplotlib rendering, now()/today() and readline are runtime behaviour no model shows. *)
From Coq Require Import List String Arith.
From Ka Require Import Model.Num Model.Qty Model.Comb Model.Exec Proofs.ExecProofs.
Local Open Scope nat_scope.
Local Open Scope string_scope.

(* every lexical error class is caught by execute()'s first try statement and gives status 1 *)
Theorem C06_lex_diagnosed : forall c, In c lex_classes -> classify_stage 0 c = Diagnosed "1".
Proof. exact lex_errors_diagnosed. Qed.
(* ParsingError and the KaRuntimeError of a bad instant literal: second try statement *)
Theorem C06_parse_diagnosed : forall c, In c parse_classes -> classify_stage 1 c = Diagnosed "1".
Proof. exact parse_errors_diagnosed. Qed.
(* every Ka error class, and ZeroDivisionError / OverflowError through eval_parse_tree, raised
   during evaluation is caught and gives status 1 *)
Theorem C06_eval_diagnosed : forall x, In x ka_eval_classes -> classify_eval (show_exn x) = Diagnosed "1".
Proof. exact eval_errors_diagnosed. Qed.
(* and nothing else is: signature matching is the only guard before a body runs *)
Theorem C06_host_errors_escape : forall x, In x host_classes -> exists c, classify_eval (show_exn x) = Escaped c.
Proof. exact host_errors_escape. Qed.

(* the modelled evaluators raise only diagnosed classes: for ALL expression trees the outcome
   is a value or a status-1 diagnostic (Unmodelled = the model declines to predict: float powers) *)
Theorem C06_arith_total_partial : forall e, aeval e <> Raise Unmodelled -> acceptable (outcome_of (aeval e)).
Proof. exact aeval_outcome. Qed.
Theorem C06_quantity_total_partial : forall n e, qeval n e <> Raise Unmodelled -> acceptable (outcome_of (qeval n e)).
Proof. exact qeval_outcome. Qed.
Theorem C06_lazy_total : forall e, acceptable (outcome_of (ceval_top e)).
Proof. exact ceval_outcome. Qed.

(* a position marker lies inside the input: the caret column is under the context line *)
Theorem C06_caret_inside : forall ctx ind len index, 0 < len -> index <= len ->
  let L := layout ctx ind len index in
  e_low L <= index /\ index <= e_high L /\ e_high L <= len
  /\ ind + e_left_fade L <= e_caret_col L
  /\ e_caret_col L <= ind + e_left_fade L + (e_high L - e_low L)
  /\ (index < len -> e_caret_col L < ind + e_left_fade L + (e_high L - e_low L))
  /\ e_line_len L = ind + e_left_fade L + (e_high L - e_low L) + e_right_fade L.
Proof. exact caret_inside. Qed.
Theorem C06_parse_index_inside : forall ntok begin_of end_of ti len,
  (forall k, k < ntok -> begin_of k <= len /\ end_of k <= len) ->
  parse_error_char_index ntok begin_of end_of ti <= len.
Proof. exact parse_index_inside. Qed.

(* `%` commands: the dispatcher is total (a bare `%` included) and runs only table entries
   with at most one argument; print_unit_info catches the prefix-on-offset-unit error *)
Theorem C06_commands_total : forall words,
  run_cmd words = CmdUnknown
  \/ (exists e g, run_cmd words = CmdArity e g)
  \/ (exists impl args, run_cmd words = CmdRun impl args
        /\ mem_str impl GenFacts.InterpFacts.known_impls = true /\ List.length args <= 1).
Proof. exact run_cmd_total. Qed.

Example C06_witness :
  outcome_of (aeval (ABin Div (ALit 1) (ALit 0))) = Diagnosed "1"
  /\ outcome_of (aeval (ABin Div (ALit 1) (ALit 2))) = Value
  /\ run_cmd [] = CmdUnknown /\ run_cmd ["u"; "kilodegC"] = CmdRun "ka.interpret.print_unit_info" ["kilodegC"].
Proof. vm_compute. repeat split. Qed.

Print Assumptions C06_lex_diagnosed.
Print Assumptions C06_parse_diagnosed.
Print Assumptions C06_eval_diagnosed.
Print Assumptions C06_host_errors_escape.
Print Assumptions C06_arith_total_partial.
Print Assumptions C06_quantity_total_partial.
Print Assumptions C06_lazy_total.
Print Assumptions C06_caret_inside.
Print Assumptions C06_parse_index_inside.
Print Assumptions C06_commands_total.
