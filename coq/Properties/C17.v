(* C17 — Instant arithmetic obeys calendar laws.
   Model: Model/Calendar.v (proleptic Gregorian calendar over Z) and Model/Instant.v (instants as
   microsecond counts since 0001-01-01T00:00:00, valid for years 1..9999; timedeltas; the
   registered operations of functions.py "Dates & times"; the ISO literal forms YYYY, YYYY-MM,
   YYYY-MM-DD[THH:MM[:SS[.f]]]).  Python's datetime is external and is tied to the model by the
   correspondence runs of harness/props/c17.py.  Float magnitudes are idealised as the exact
   rational they denote (Num.NFlt).  Statements only. *)
From Coq Require Import ZArith QArith List String.
From Ka Require Import Model.Instant Proofs.CalendarProofs Proofs.InstantProofs.
Local Open Scope string_scope.
Local Open Scope Z_scope.

(* civil -> day number -> civil, for every date of EVERY year in Z (in particular 1..9999).
   Proved from two kernel computations over one 400-year era (146097 days; 400 x 12 x 31
   candidate dates) lifted to all eras by linear arithmetic. *)
Theorem C17_civil_roundtrip : forall y m d, valid_date y m d = true ->
  civil_from_days (days_from_civil y m d) = (y, m, d).
Proof. exact civil_from_days_from_civil. Qed.

(* day number -> civil -> day number, for every day number in Z; the date produced is valid *)
Theorem C17_days_roundtrip : forall n,
  let '(y, m, d) := civil_from_days n in
  valid_date y m d = true /\ days_from_civil y m d = n.
Proof. exact days_from_civil_from_days. Qed.

(* the years 1..9999 are exactly the day numbers 0 .. 3652058 *)
Theorem C17_year_range : forall y m d, valid_date y m d = true ->
  (valid_year y = true <-> 0 <= days_from_civil y m d < 3652059).
Proof. exact year_range_iff. Qed.

(* (I + q) - I = q rounded to the microsecond and (I - q) + q = I, whenever no overflow is
   reported; q of any of the three magnitude kinds *)
Theorem C17_add_sub : forall i q, in_range i = true ->
  (forall r, instant_plus_quantity i q = Ok r ->
     instant_minus_instant r i = round_us (toQ (q_mag q)) /\ instant_minus_quantity r q = Ok i)
  /\ (forall r, instant_minus_quantity i q = Ok r ->
     instant_plus_quantity r q = Ok i /\ instant_minus_instant i r = round_us (toQ (q_mag q))).
Proof. exact add_sub_laws. Qed.

(* "to the microsecond": rounding moves a span by at most half a microsecond and leaves whole
   numbers of microseconds alone *)
Theorem C17_round_us : forall q,
  ((inject_Z (round_us q) - q * inject_Z 1000000 <= 1 # 2)%Q
   /\ (q * inject_Z 1000000 - inject_Z (round_us q) <= 1 # 2)%Q)
  /\ (forall z, (q == z # 1000000)%Q -> round_us q = z).
Proof. exact round_us_laws. Qed.

(* I + n (and I - n) is I plus (minus) n * 86400 s: same result, same errors; the time of day
   is unchanged and the date moves by n days *)
Theorem C17_days : forall i n,
  (instant_plus_int i n
     = instant_plus_quantity i {| q_mag := NInt (n * 86400); q_dims := seconds_dims |}
   /\ instant_minus_int i n
     = instant_minus_quantity i {| q_mag := NInt (n * 86400); q_dims := seconds_dims |})
  /\ (forall r, instant_plus_int i n = Ok r ->
        r = i + n * 86400000000 /\ in_range r = true
        /\ date_of r = civil_from_days (day_of i + n) /\ tod_of r = tod_of i).
Proof. exact days_laws. Qed.

Theorem C17_diff_antisym : forall i j,
  instant_minus_instant i j = - instant_minus_instant j i
  /\ (total_seconds (instant_minus_instant i j) == - total_seconds (instant_minus_instant j i))%Q.
Proof. exact diff_antisym. Qed.

(* the six comparisons are the sign of I - J, and their results are the numbers 0 / 1 *)
Theorem C17_cmp_sign : forall i j,
  let s := instant_minus_instant i j in
  (instant_cmp CLt i j = 1 <-> s < 0) /\ (instant_cmp CLe i j = 1 <-> s <= 0)
  /\ (instant_cmp CGt i j = 1 <-> s > 0) /\ (instant_cmp CGe i j = 1 <-> s >= 0)
  /\ (instant_cmp CEq i j = 1 <-> s = 0) /\ (instant_cmp CNe i j = 1 <-> s <> 0)
  /\ (forall op, instant_cmp op i j = 0 \/ instant_cmp op i j = 1).
Proof. exact cmp_sign. Qed.

(* floor I <= I < ceil I, both at midnight, one day apart, floor on the same date — for every
   instant of years 1..9999; ceil reports overflow only on 9999-12-31 *)
Theorem C17_floor_ceil : forall i, in_range i = true ->
  exists f, floor_instant i = Ok f
    /\ f <= i < f + 86400000000
    /\ f mod 86400000000 = 0 /\ (f + 86400000000) mod 86400000000 = 0
    /\ in_range f = true /\ date_of f = date_of i
    /\ (ceil_instant i = Ok (f + 86400000000) /\ in_range (f + 86400000000) = true
        \/ ceil_instant i = Raise OverflowError /\ date_of i = (9999, 12, 31)).
Proof. exact floor_ceil_laws. Qed.

Theorem C17_ceil_overflow_iff : forall i, in_range i = true ->
  (ceil_instant i = Raise OverflowError <-> date_of i = (9999, 12, 31)).
Proof. exact ceil_overflow_iff. Qed.

(* the getters return the fields of the ISO text the instant was read from, and the instant
   prints as that text *)
Theorem C17_fields : forall y m d h mi s us,
  valid_year y = true -> valid_date y m d = true -> valid_time h mi s us = true ->
  exists i, instant_from_iso (iso_text y m d h mi s us) = Ok i /\ in_range i = true
    /\ get_year i = y /\ get_month i = m /\ get_day i = d
    /\ get_hour i = h /\ get_minute i = mi /\ get_second i = s
    /\ show_instant i = iso_text y m d h mi s us.
Proof. exact fields_of_text. Qed.

(* every instant in range is the instant of its own fields (so the previous theorem covers all) *)
Theorem C17_fields_onto : forall i, in_range i = true ->
  exists y m d, date_of i = (y, m, d) /\ valid_year y = true /\ valid_date y m d = true
    /\ days_from_civil y m d = day_of i
    /\ valid_time (get_hour i) (get_minute i) (get_second i) (get_micro i) = true
    /\ i = mk_instant y m d (get_hour i) (get_minute i) (get_second i) (get_micro i).
Proof. exact instant_decompose. Qed.

(* "YYYY" means YYYY-01-01 and "YYYY-MM" means YYYY-MM-01: for every text the two regexes
   accept, and with the value for every year 1..9999 and month 1..12 *)
Theorem C17_short_literals :
  (forall s, just_year s = true -> instant_from_iso s = instant_from_iso (s ++ "-01-01"))
  /\ (forall s, just_year_month s = true -> instant_from_iso s = instant_from_iso (s ++ "-01"))
  /\ (forall y, valid_year y = true ->
        just_year (pad 4 y) = true /\ instant_from_iso (pad 4 y) = Ok (mk_instant y 1 1 0 0 0 0))
  /\ (forall y m, valid_year y = true -> 1 <= m <= 12 ->
        just_year_month (pad 4 y ++ "-" ++ pad 2 m) = true
        /\ instant_from_iso (pad 4 y ++ "-" ++ pad 2 m) = Ok (mk_instant y m 1 0 0 0 0)).
Proof. exact short_literal_laws. Qed.

(* a quantity whose dimension vector is not exactly seconds^1 is rejected by + and - *)
Theorem C17_non_time_rejected : forall i q, dims_eqb seconds_dims (q_dims q) = false ->
  instant_plus_quantity i q = Raise KaRuntimeError
  /\ instant_minus_quantity i q = Raise KaRuntimeError.
Proof. exact non_time_rejected. Qed.
Theorem C17_time_accepted_iff : forall q,
  validate_time q = Ok tt <-> Forall2 Qeq seconds_dims (q_dims q).
Proof. exact time_accepted_iff. Qed.

(* results stay inside years 1..9999; otherwise one of the two diagnosed errors *)
Theorem C17_results_in_range : forall i q,
  (forall r, instant_plus_quantity i q = Ok r -> in_range r = true)
  /\ (forall r, instant_minus_quantity i q = Ok r -> in_range r = true)
  /\ (forall e, instant_plus_quantity i q = Raise e -> e = OverflowError \/ e = KaRuntimeError)
  /\ (forall e, instant_minus_quantity i q = Raise e -> e = OverflowError \/ e = KaRuntimeError).
Proof. exact results_closed. Qed.

(* ---- non-vacuity: a leap day, a month end, a year end, the last day, a fraction span -------- *)

Example C17_leap_day :
  on "2024-02-28T23:59:59.999999" ceil_instant = "T:2024-02-29T00:00:00"
  /\ on "2024-02-29T12:34:56.5" ceil_instant = "T:2024-03-01T00:00:00"
  /\ on "2024-02-29T12:34:56.5" floor_instant = "T:2024-02-29T00:00:00"
  /\ on "1900-02-29" Ok = "E:KaRuntimeError" /\ on "2000-02-29" Ok = "T:2000-02-29T00:00:00".
Proof. vm_compute. repeat split. Qed.
Example C17_month_and_year_end :
  on "2024-01-31" ceil_instant = "T:2024-02-01T00:00:00"
  /\ on "2023-12-31T23:59:59.999999" ceil_instant = "T:2024-01-01T00:00:00"
  /\ on "2023-12-31" (fun i => instant_plus_int i 1) = "T:2024-01-01T00:00:00"
  /\ on "9999-12-31" ceil_instant = "E:OverflowError"
  /\ on "0001" (fun i => instant_minus_int i 1) = "E:OverflowError".
Proof. vm_compute. repeat split. Qed.
Example C17_spans :
  on "2024" (fun i => instant_plus_quantity i (secs (NFrac (3 # 2)))) = "T:2024-01-01T00:00:01.500000"
  /\ on "2024-01" (fun i => instant_plus_quantity i (secs (NFrac (1 # 3)))) = "T:2024-01-01T00:00:00.333333"
  /\ on "2024-01-01" (fun i => instant_plus_quantity i (secs (NFrac (5 # 2000000)))) = "T:2024-01-01T00:00:00.000002"
  /\ on "2024-01-01" (fun i => instant_plus_quantity i {| q_mag := NInt 1; q_dims := [0; 1; 0; 0; 0; 0; 0; 0]%Q |})
     = "E:KaRuntimeError".
Proof. vm_compute. repeat split. Qed.

Print Assumptions C17_civil_roundtrip.
Print Assumptions C17_days_roundtrip.
Print Assumptions C17_year_range.
Print Assumptions C17_add_sub.
Print Assumptions C17_round_us.
Print Assumptions C17_days.
Print Assumptions C17_diff_antisym.
Print Assumptions C17_cmp_sign.
Print Assumptions C17_floor_ceil.
Print Assumptions C17_ceil_overflow_iff.
Print Assumptions C17_fields.
Print Assumptions C17_fields_onto.
Print Assumptions C17_short_literals.
Print Assumptions C17_non_time_rejected.
Print Assumptions C17_time_accepted_iff.
Print Assumptions C17_results_in_range.
