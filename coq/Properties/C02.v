(* C02 — placeholder while the proofs are being built: examples only. *)
From Ka Require Import Model.Parser Model.Printer.
Open Scope string_scope.

Example C02_ex_sub : parse [KVar "a"; KMinus; KVar "b"; KMinus; KVar "c"]
  = Ok (PStmts [PCall "-" [PCall "-" [PVar "a"; PVar "b"] []; PVar "c"] []]).
Proof. vm_compute. reflexivity. Qed.
