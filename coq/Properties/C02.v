(* C02 — Expressions group exactly as the documented precedence and associativity.
   Statements only; each is closed by [exact <lemma>].

   Objects: token lists [tok], parse trees [ptree] (mirroring ka.parse.ParseNode), the model
   [parse] of ka.parse.parse_tokens (Model/Parser.v, tied to the code by the correspondence
   run of harness/props/c02.py on every token sequence up to length 4/5 and on printed
   trees), the surface syntax [sst] with explicit parenthesis nodes, [desugar : sst -> ptree]
   and the two printers [print_min] (parentheses only where the rule table of
   Model/Printer.v requires) and [print_full] (every compound operand parenthesised).

   ALL STAGES of DESIGN.md are proved, so no clause is partial: the theorems quantify over every
   program = statement list (assignments and expression statements) over every surface tree:
   numbers, identifiers, strings, instants, parentheses, one unary sign, postfix "!", the three
   binary levels "^" > "* / %" > "+ - ±" (left-associative), ranges, intervals, calls with
   positional and keyword arguments, arrays, comprehensions (generators and conditions),
   quantities and conversions with unit signatures (exponents, "|"), single and double
   comparison chains (all eight operators incl. "=" and "in", with the flip of all-backward
   chains) — at any depth and nesting.  The only hypothesis is [wf_prog] (Model/Printer.v): a unit
   list is not empty and a comprehension has at least one clause (no text exists otherwise). *)
From Ka Require Import Model.Parser Model.Printer Proofs.ParserProofs Proofs.ParserProofs2 Proofs.ParserProofs3.
Open Scope string_scope.
Open Scope list_scope.

(* The minimal text of every program parses to exactly the tree the rule table prescribes. *)
Theorem C02_min_roundtrip : forall p, wf_prog p = true ->
  parse (print_min p) = Ok (desugar_prog p).
Proof. exact (roundtrip Min). Qed.

(* So does the fully parenthesised text. *)
Theorem C02_full_roundtrip : forall p, wf_prog p = true ->
  parse (print_full p) = Ok (desugar_prog p).
Proof. exact (roundtrip Full). Qed.

(* Hence both texts parse to the same tree ... *)
Theorem C02_min_equals_full : forall p, wf_prog p = true ->
  parse (print_min p) = parse (print_full p).
Proof. exact min_equals_full. Qed.

(* ... and evaluate to the same value, whatever evaluation is (a function of the tree). *)
Theorem C02_same_value : forall (V : Type) (eval : ptree -> V) p, wf_prog p = true ->
  exists t, parse (print_min p) = Ok t /\ parse (print_full p) = Ok t /\
            forall t1 t2, parse (print_min p) = Ok t1 -> parse (print_full p) = Ok t2 -> eval t1 = eval t2.
Proof. exact same_value. Qed.

(* Adding parenthesis nodes anywhere (programs equal after [strip]ping them) changes neither
   the minimal nor the full text's parse. *)
Theorem C02_redundant_parens : forall m p p',
  wf_prog p = true -> wf_prog p' = true ->
  map strip_stmt p' = map strip_stmt p ->
  parse (print_prog m p') = parse (print_prog m p).
Proof. exact redundant_parens. Qed.

(* LEFT ASSOCIATIVITY, the key lemma: the operator loop of parse_binary_op, run on printed
   items  op1 x1 ... opn xn  whose operands parse to t1 ... tn, returns the left fold
   ((acc op1 t1) op2 t2) ... opn tn. *)
Theorem C02_loop_correct : forall (operand : parser ptree) isop rest,
  noop isop rest ->
  forall items, items_ok operand isop rest items ->
  forall acc fuel, (List.length (flat_items items ++ rest) < fuel)%nat ->
  binloop operand isop fuel acc (flat_items items ++ rest) = POk (fold_items isop items acc, rest).
Proof. exact loop_correct. Qed.

(* The minimal printer really omits the parentheses of a left-nested operand of the same level
   (unless it ends in a unit signature in front of "^") and keeps those of a right-nested one. *)
Theorem C02_left_nested_no_parens : forall o o' a b c,
  binlevel_of o' = binlevel_of o -> ends_units (SBin o' a b) = false ->
  raw Min (SBin o (SBin o' a b) c)
  = raw Min (SBin o' a b) ++ tok_of_bin o :: pr Min (pred (binlevel_of o)) false c.
Proof. exact left_nested_text. Qed.

Theorem C02_right_nested_parens : forall o o' a b c,
  binlevel_of o' = binlevel_of o ->
  raw Min (SBin o a (SBin o' b c))
  = pr Min (binlevel_of o) (match o with BPow => true | _ => false end) a
    ++ tok_of_bin o :: KLP :: raw Min (SBin o' b c) ++ [KRP].
Proof. exact right_nested_text. Qed.

(* A positional argument (any printed operand) never starts "identifier :", so it is never taken
   for a keyword argument. *)
Theorem C02_positional_never_keyword : forall m L pl x k,
  nocolon k -> starts_var_colon (pr m L pl x ++ k) = false.
Proof. exact pr_no_var_colon. Qed.

(* A keyword argument is recognised only as "name : value" after the positional arguments. *)
Theorem C02_kwarg_position : forall f x k v,
  parse [KVar f; KLP; KVar x; KComma; KVar k; KColon; KVar v; KRP]
    = Ok (PStmts [PCall f [PVar x] [(k, PVar v)]])
  /\ parse [KVar f; KLP; KVar k; KColon; KVar v; KComma; KVar x; KRP] = Raise ParsingError
  /\ parse [KVar f; KLP; KVar k; KColon; KVar v; KComma; KVar x; KColon; KVar v; KRP]
    = Ok (PStmts [PCall f [] [(k, PVar v); (x, PVar v)]])
  /\ parse [KVar f; KLP; KLP; KVar k; KRP; KColon; KVar v; KRP] = Raise ParsingError.
Proof. intros. vm_compute. repeat split. Qed.

(* "name = expr" at the start of a statement is an assignment; "=" elsewhere is a comparison. *)
Theorem C02_assignment_position : forall x y n,
  parse [KVar x; KAssign; KNum n] = Ok (PStmts [PAssign x (PNum n)])
  /\ parse [KVar y; KSemi; KVar x; KAssign; KNum n] = Ok (PStmts [PVar y; PAssign x (PNum n)])
  /\ parse [KLP; KVar x; KAssign; KNum n; KRP] = Ok (PStmts [PCall "=" [PVar x; PNum n] []])
  /\ parse [KNum n; KAssign; KVar x] = Ok (PStmts [PCall "=" [PNum n; PVar x] []])
  /\ parse [KVar x; KAssign; KVar y; KAssign; KNum n]
     = Ok (PStmts [PAssign x (PCall "=" [PVar y; PNum n] [])]).
Proof. intros. vm_compute. repeat split. Qed.

(* Non-vacuity: the documented examples. *)
Definition va := SVar "a". Definition vb := SVar "b". Definition vc := SVar "c".
Definition ex (s : sst) : prog := [StExpr s].

Example C02_ex_sub :   (* a-b-c *)
  wf_prog (ex (SBin BSub (SBin BSub va vb) vc)) = true
  /\ print_min (ex (SBin BSub (SBin BSub va vb) vc)) = [KVar "a"; KMinus; KVar "b"; KMinus; KVar "c"]
  /\ parse [KVar "a"; KMinus; KVar "b"; KMinus; KVar "c"]
     = Ok (PStmts [PCall "-" [PCall "-" [PVar "a"; PVar "b"] []; PVar "c"] []]).
Proof. vm_compute. repeat split. Qed.

Example C02_ex_sub_right :   (* a-(b-c) keeps its parentheses *)
  print_min (ex (SBin BSub va (SBin BSub vb vc))) = [KVar "a"; KMinus; KLP; KVar "b"; KMinus; KVar "c"; KRP].
Proof. vm_compute. reflexivity. Qed.

Example C02_ex_divmul :   (* a/b*c *)
  print_min (ex (SBin BMul (SBin BDiv va vb) vc)) = [KVar "a"; KDiv; KVar "b"; KMul; KVar "c"]
  /\ parse [KVar "a"; KDiv; KVar "b"; KMul; KVar "c"]
     = Ok (PStmts [PCall "*" [PCall "/" [PVar "a"; PVar "b"] []; PVar "c"] []]).
Proof. vm_compute. repeat split. Qed.

Example C02_ex_pow :   (* a^b^c = (a^b)^c *)
  print_min (ex (SBin BPow (SBin BPow va vb) vc)) = [KVar "a"; KExp; KVar "b"; KExp; KVar "c"]
  /\ parse [KVar "a"; KExp; KVar "b"; KExp; KVar "c"]
     = Ok (PStmts [PCall "^" [PCall "^" [PVar "a"; PVar "b"] []; PVar "c"] []]).
Proof. vm_compute. repeat split. Qed.

Example C02_ex_neg_fact :   (* -a! = -(a!) *)
  wf_prog (ex (SSign true (SFact va))) = true
  /\ print_min (ex (SSign true (SFact va))) = [KMinus; KVar "a"; KBang]
  /\ parse [KMinus; KVar "a"; KBang] = Ok (PStmts [PCall "-" [PCall "!" [PVar "a"] []] []]).
Proof. vm_compute. repeat split. Qed.

Example C02_ex_neg_pow :   (* -a^b = (-a)^b *)
  wf_prog (ex (SBin BPow (SSign true va) vb)) = true
  /\ print_min (ex (SBin BPow (SSign true va) vb)) = [KMinus; KVar "a"; KExp; KVar "b"]
  /\ parse [KMinus; KVar "a"; KExp; KVar "b"] = Ok (PStmts [PCall "^" [PCall "-" [PVar "a"] []; PVar "b"] []]).
Proof. vm_compute. repeat split. Qed.

Example C02_ex_units :   (* a b^2|c d *)
  parse (print_min (ex (SQty va ([("b", 2%Z)], [("c", 1%Z); ("d", 1%Z)]))))
  = Ok (PStmts [PQty (PVar "a") ([("b", 2%Z)], [("c", 1%Z); ("d", 1%Z)])])
  /\ print_min (ex (SQty va ([("b", 2%Z)], [("c", 1%Z); ("d", 1%Z)])))
     = [KVar "a"; KVar "b"; KExp; KNum (ZLit 2); KBar; KVar "c"; KVar "d"].
Proof. vm_compute. repeat split. Qed.

Example C02_ex_range :   (* a..b+1 = (a..b)+1 *)
  parse [KVar "a"; KDots; KVar "b"; KPlus; KNum (ZLit 1)]
  = Ok (PStmts [PCall "+" [PCall "range" [PVar "a"; PVar "b"] []; PNum (ZLit 1)] []]).
Proof. vm_compute. reflexivity. Qed.

Example C02_ex_conv :   (* a<b to u = (a<b) to u *)
  parse [KVar "a"; KLt; KVar "b"; KTo; KVar "u"]
  = Ok (PStmts [PConv (PCall "<" [PVar "a"; PVar "b"] []) ([("u", 1%Z)], [])]).
Proof. vm_compute. reflexivity. Qed.

Example C02_ex_call :   (* f(x, k: {y : y in 1..3, y<2}) *)
  parse [KVar "f"; KLP; KVar "x"; KComma; KVar "k"; KColon; KLBrace; KVar "y"; KColon; KVar "y"; KIn;
         KNum (ZLit 1); KDots; KNum (ZLit 3); KComma; KVar "y"; KLt; KNum (ZLit 2); KRBrace; KRP]
  = Ok (PStmts [PCall "f" [PVar "x"]
          [("k", PCompr (PVar "y") [("y", PCall "range" [PNum (ZLit 1); PNum (ZLit 3)] [])]
                        [PCall "<" [PVar "y"; PNum (ZLit 2)] []])]]).
Proof. vm_compute. reflexivity. Qed.

Example C02_ex_stmts :   (* x = 3; x == 3 *)
  parse [KVar "x"; KAssign; KNum (ZLit 3); KSemi; KVar "x"; KEq; KNum (ZLit 3)]
  = Ok (PStmts [PAssign "x" (PNum (ZLit 3)); PCall "==" [PVar "x"; PNum (ZLit 3)] []]).
Proof. vm_compute. reflexivity. Qed.

Example C02_ex_chain_flip :   (* 3 > 2 >= 1 is flipped and reversed; 3 > 2 < 5 is not *)
  parse [KNum (ZLit 3); KGt; KNum (ZLit 2); KGeq; KNum (ZLit 1)]
  = Ok (PStmts [PCall "<=_<" [PNum (ZLit 1); PNum (ZLit 2); PNum (ZLit 3)] []])
  /\ parse [KNum (ZLit 3); KGt; KNum (ZLit 2); KLt; KNum (ZLit 5)]
  = Ok (PStmts [PCall ">_<" [PNum (ZLit 3); PNum (ZLit 2); PNum (ZLit 5)] []])
  /\ parse [KNum (ZLit 1); KLt; KNum (ZLit 2); KLt; KNum (ZLit 3); KLt; KNum (ZLit 4)] = Raise ParsingError
  /\ parse [KVar "a"; KDots; KVar "b"; KDots; KVar "c"] = Raise ParsingError.
Proof. vm_compute. repeat split. Qed.

(* a program using every construct is in the theorems' domain, and its two texts differ *)
Definition big : prog :=
  [StAssign "x" (SNum (ZLit 3));
   StExpr (SCall "f" [SBin BSub (SBin BSub va vb) (SFact vc); SRange va (SQty (SNum (ZLit 2)) ([("m", 1%Z)], []))]
             [("k", SCompr (SVar "y") [(Some "y", SRange (SNum (ZLit 1)) (SNum (ZLit 3)));
                                       (None, SCmp1 CIn (SVar "y") (SArr [SStr "s"; SInst "2020-01-01"]))])]);
   StExpr (SCmp1 CAssign (SVar "x") (SConv (SCmp2 CGt CGeq va vb (SInterval va vb)) ([("m", 2%Z)], [("s", (-1)%Z)])));
   StExpr (SBin BPow (SQty (SSign true (SNum (XLit "2.5"))) ([("m", 1%Z)], [])) (SParen (SBin BPm va vb)))].

Example C02_ex_big :
  wf_prog big = true
  /\ print_min big <> print_full big
  /\ parse (print_min big) = Ok (desugar_prog big)
  /\ parse (print_full big) = Ok (desugar_prog big).
Proof. vm_compute. repeat split. discriminate. Qed.

Print Assumptions C02_min_roundtrip.
Print Assumptions C02_full_roundtrip.
Print Assumptions C02_min_equals_full.
Print Assumptions C02_same_value.
Print Assumptions C02_redundant_parens.
Print Assumptions C02_loop_correct.
Print Assumptions C02_left_nested_no_parens.
Print Assumptions C02_right_nested_parens.
Print Assumptions C02_positional_never_keyword.
Print Assumptions C02_kwarg_position.
Print Assumptions C02_assignment_position.
