(* C20 — Currency conversion is table-consistent and independent of the configured base.
   Model: Model/Currency.v — registration of the currency units as units.py:380-410 does it
   (multiple = rate(base)/rate(c), clash rules, special names and symbols; with repair R2),
   lookup (names before symbols), make_quantity / convert_quantity, the export writer and
   parse_currency_data (with repair R1) over exact rationals.  Statements only.

   Domain: EVERY table with positive rates, EVERY reduction of names to identifiers (units.py's
   NFKD/ASCII `cname`, external), EVERY set of already registered unit names and
   symbols, every amount in Q, every identifier.  Floats: the implementation computes the same
   expressions in binary64 (at most 4 roundings per conversion, a triangle at most 8); that the
   results agree within 1e-9 relative is checked by the correspondence (harness/props/c20.py)
   under every base, not proved — clause C20_float_partial is therefore not a theorem. *)
From Coq Require Import List String ZArith QArith.
From Ka Require Import Model.Currency Proofs.CurrencyProofs Model.Config Proofs.ConfigProofs GenFacts.ConfigFacts.
Local Open Scope string_scope.

(* x A to B = x * rate(B) / rate(A), with the rates of the table rows A and B resolve to *)
Theorem C20_rate : forall nn pn ps t base st,
  rates_positive t -> register_currencies nn pn ps t base = POk st ->
  forall x a b ua ub,
    lookup_unit st a = RCash ua -> lookup_unit st b = RCash ub ->
    In (cu_row ua) t /\ In (cu_row ub) t /\
    exists r, convert st x a b = Some r /\ r == x * c_rate (cu_row ub) / c_rate (cu_row ua).
Proof. exact conversion_rate. Qed.

Theorem C20_roundtrip : forall nn pn ps t base st,
  rates_positive t -> register_currencies nn pn ps t base = POk st ->
  forall x a b y, convert st x a b = Some y -> exists x', convert st y b a = Some x' /\ x' == x.
Proof. exact conversion_roundtrip. Qed.

Theorem C20_triangle : forall nn pn ps t base st,
  rates_positive t -> register_currencies nn pn ps t base = POk st ->
  forall x a b c y z, convert st x a b = Some y -> convert st y b c = Some z ->
    exists z', convert st x a c = Some z' /\ z' == z.
Proof. exact conversion_triangle. Qed.

(* Two registries built from the same table under two bases resolve every identifier to the same
   row (or both to none) and give equal conversions. *)
Theorem C20_base_independent : forall nn pn ps t b1 b2 st1 st2,
  rates_positive t ->
  register_currencies nn pn ps t b1 = POk st1 -> register_currencies nn pn ps t b2 = POk st2 ->
  forall x a b,
    match convert st1 x a b, convert st2 x a b with
    | Some r1, Some r2 => r1 == r2
    | None, None => True
    | _, _ => False
    end.
Proof. exact base_independent. Qed.

(* Every base present in the table yields a registry: the loop never raises. *)
Theorem C20_registration_total : forall nn pn ps t base,
  rates_positive t -> has_currency base t = true ->
  exists st b, find (fun c => String.eqb (c_sym c) base) t = Some b /\ In b t
            /\ register_currencies nn pn ps t base = POk st /\ cash_ok (c_rate b) t st.
Proof. exact registration_never_raises. Qed.

(* The two dictionaries never receive a key twice, so an identifier names at most one unit. *)
Theorem C20_keys_unique : forall nn pn ps t base st,
  NoDup pn -> NoDup ps -> register_currencies nn pn ps t base = POk st -> keys_ok st.
Proof. exact registry_keys_unique. Qed.

(* Export then parse is the identity on tables whose symbols and names contain no ',' and no
   line break, with positive rates.  str() and float() of a rate are external: [repr] and [pf] are
   ANY pair of functions with float(str(q)) = q and str(q) free of ',' and line breaks (what
   CPython's shortest-repr guarantees for finite floats; the correspondence exercises it). *)
Theorem C20_export_import : forall (repr : Q -> string) (pf : pyfloat_t),
  (forall q, pf (repr q) = Some q) -> (forall q, clean (repr q)) ->
  forall t, Forall (fun c => clean (c_sym c) /\ clean (c_name c) /\ 0 < c_rate c) t ->
    parse_currency_data pf (export_text repr t) = PTable t
    /\ universal_newlines (export_text repr t) = export_text repr t.
Proof.
  exact (fun repr pf H1 H2 t F => conj (export_parse repr pf H1 H2 t F) (export_text_mode repr H2 t F)).
Qed.

(* ... and a non-empty exported table is the one start-up uses (not the built-in fallback). *)
Theorem C20_exported_table_is_used : forall (repr : Q -> string) (pf : pyfloat_t) c fs x t,
  (forall q, pf (repr q) = Some q) -> (forall q, clean (repr q)) ->
  Forall (fun c => clean (c_sym c) /\ clean (c_name c) /\ 0 < c_rate c) (x :: t) ->
  fs (path_of c "currency-path") = Bytes true (export_text repr (x :: t)) ->
  load_currency_data pf c fs = POk (x :: t, true, []).
Proof. exact exported_table_is_used. Qed.

(* This table (regenerated): the model's registration of the built-in table under the default
   base reproduces the live registry's cash units, and every built-in currency is reachable by its
   symbol or, where a unit owns the symbol, by its name. *)
Theorem C20_builtin_matches_live : registration_matches_live = true.
Proof. exact registration_matches_live_true. Qed.
Theorem C20_builtin_reachable : builtin_reachable = true.
Proof. exact builtin_reachable_true. Qed.

(* ---- non-vacuity *)
Definition ex_table : list cur := [("usd", "usdollar", 1); ("eur", "euro", 9 # 10); ("gbp", "britishpound", 4 # 5);
                                    ("cup", "cubanpeso", 24); ("xyz", "euro", 3)].
Example C20_witness :
  match register_currencies ascii_alnum_only pre_names pre_syms ex_table "eur", register_currencies ascii_alnum_only pre_names pre_syms ex_table "gbp" with
  | POk s1, POk s2 =>
      (* 90 usd to gbp = 90 * 0.8 / 1 under both bases; `$` and `dollar` are usd; `cup` stays the
         volume unit and the peso is reachable by name; the second `euro` is reachable as xyz *)
      (match convert s1 90 "usd" "gbp", convert s2 90 "$" "britishpounds" with
          | Some a, Some b => a == 72 /\ b == 72 | _, _ => False end)
      /\ lookup_unit s1 "cup" = RNonCash
      /\ (match convert s1 24 "cubanpeso" "dollar" with Some a => a == 1 | None => False end)
      /\ (match convert s1 3 "xyz" "euros" with Some a => a == (9 # 10) | None => False end)
  | _, _ => False
  end.
Proof. vm_compute. repeat split; reflexivity. Qed.

Example C20_witness_text :
  parse_currency_data (float_table [("1.0", 1); ("0.5", 1 # 2)])
    (export_text (fun q => if Qeq_bool q 1 then "1.0" else "0.5") [("usd", "usdollar", 1); ("gbp", "bp", 1 # 2)])
  = PTable [("usd", "usdollar", 1); ("gbp", "bp", 1 # 2)].
Proof. vm_compute. reflexivity. Qed.

Print Assumptions C20_rate.
Print Assumptions C20_roundtrip.
Print Assumptions C20_triangle.
Print Assumptions C20_base_independent.
Print Assumptions C20_registration_total.
Print Assumptions C20_keys_unique.
Print Assumptions C20_export_import.
Print Assumptions C20_exported_table_is_used.
Print Assumptions C20_builtin_matches_live.
Print Assumptions C20_builtin_reachable.
