(* C07 — Interval arithmetic encloses every point; interval predicates mean "for all".
   Statements only; each is closed by [exact <lemma>] (Proofs/IntervalProofs.v).

   Vocabulary (Model/Interval.v):  ka_apply sqrtK logK powK f args  is dispatch(f, args) on
   numbers (VN q, q : Q) and intervals (VI I, I = mkI lo hi);  wf I := lo I <= hi I;
   inI p I := lo I <= p <= hi I.  sqrtK, logK base x, powK x r stand for the implementation's
   scalar math.sqrt, math.log(x, base), x ** r (non-integer r); theorems about them assume
   monotonicity only (sqrt_monotone / log_monotone / pow_monotone), as explicit premises.
   Which (name, kinds) combinations exist at all is re-proved against the regenerated
   registry in GenFacts/IntervalFacts.v (resolution_agrees_true).

   Shape of an enclosure theorem: if the interval operation returns an interval J, then at
   EVERY point p of the operand the point operation (the number-only registration of the
   same name) is defined and its value lies in J. *)
From Coq Require Import QArith Qpower Qabs.
From Ka Require Import Model.Interval Proofs.IntervalProofs GenFacts.IntervalFacts.
Open Scope Q_scope.

(* ---------------------------------------------------------------- lower <= upper *)
(* Every operation (any registered name, any arguments) that returns an interval returns a
   well-formed one, given well-formed interval arguments. *)
Theorem C07_wellformed : forall sqrtK logK powK f args v, sqrt_monotone sqrtK ->
  Forall wfv args -> ka_apply sqrtK logK powK f args = Ok v -> wfv v.
Proof. exact apply_wf. Qed.

(* ... hence every value of every expression built from numbers, `[a, b]` literals and the
   C07 functions is well-formed. *)
Theorem C07_wellformed_expr : forall sqrtK logK powK e v, sqrt_monotone sqrtK ->
  eval sqrtK logK powK e = Ok v -> wfv v.
Proof. exact eval_wf. Qed.

(* the literal `[a, b]` (and interval(a, b)): a > b collapses to [0, 0] *)
Theorem C07_wellformed_literal : forall sqrtK logK powK a b,
  (a <= b -> ka_apply sqrtK logK powK FInterval [VN a; VN b] = Ok (VI (mkI a b))) /\
  (b < a -> ka_apply sqrtK logK powK FInterval [VN a; VN b] = Ok (VI (mkI 0 0))).
Proof. exact literal_ok. Qed.

(* ---------------------------------------------------------------- + - * / by a number *)
Theorem C07_encloses_arith : forall sqrtK logK powK f I x p J,
  In f [FAdd; FSub; FMul; FDiv] -> wf I -> inI p I ->
  ka_apply sqrtK logK powK f [VI I; VN x] = Ok (VI J) ->
  exists v, ka_apply sqrtK logK powK f [VN p; VN x] = Ok (VN v) /\ inI v J.
Proof. exact encloses_arith_left. Qed.

(* number on the left: registered for + and * only *)
Theorem C07_encloses_arith_number_left : forall sqrtK logK powK f I x p J,
  In f [FAdd; FMul] -> wf I -> inI p I ->
  ka_apply sqrtK logK powK f [VN x; VI I] = Ok (VI J) ->
  exists v, ka_apply sqrtK logK powK f [VN x; VN p] = Ok (VN v) /\ inI v J.
Proof. exact encloses_arith_right. Qed.

(* what is not registered is rejected before any body runs: 2 - [1,2], 2 / [1,2], 2 ^ [1,2],
   interval-with-interval arithmetic … *)
Theorem C07_unregistered_orders : forall sqrtK logK powK I x,
  ka_apply sqrtK logK powK FSub [VN x; VI I] = Raise NoMatchingFunctionSignatureError /\
  ka_apply sqrtK logK powK FDiv [VN x; VI I] = Raise NoMatchingFunctionSignatureError /\
  ka_apply sqrtK logK powK FPow [VN x; VI I] = Raise NoMatchingFunctionSignatureError /\
  ka_apply sqrtK logK powK FLog [VN x; VI I] = Raise NoMatchingFunctionSignatureError /\
  ka_apply sqrtK logK powK FContains [VN x; VI I] = Raise NoMatchingFunctionSignatureError /\
  ka_apply sqrtK logK powK FIn [VI I; VN x] = Raise NoMatchingFunctionSignatureError /\
  (forall J,
     ka_apply sqrtK logK powK FAdd [VI I; VI J] = Raise NoMatchingFunctionSignatureError /\
     ka_apply sqrtK logK powK FSub [VI I; VI J] = Raise NoMatchingFunctionSignatureError /\
     ka_apply sqrtK logK powK FMul [VI I; VI J] = Raise NoMatchingFunctionSignatureError /\
     ka_apply sqrtK logK powK FDiv [VI I; VI J] = Raise NoMatchingFunctionSignatureError /\
     ka_apply sqrtK logK powK FPow [VI I; VI J] = Raise NoMatchingFunctionSignatureError /\
     ka_apply sqrtK logK powK FMin [VI I; VI J] = Raise NoMatchingFunctionSignatureError /\
     ka_apply sqrtK logK powK FMax [VI I; VI J] = Raise NoMatchingFunctionSignatureError).
Proof. exact unregistered_orders. Qed.

(* the model's resolution table is the live registry's (re-proved on the regenerated dump) *)
Theorem C07_resolution_is_registry : resolution_agrees = true.
Proof. exact resolution_agrees_true. Qed.

(* ---------------------------------------------------------------- unary -, unary +, abs *)
Theorem C07_encloses_neg : forall sqrtK logK powK I p J, wf I -> inI p I ->
  ka_apply sqrtK logK powK FSub [VI I] = Ok (VI J) ->
  exists v, ka_apply sqrtK logK powK FSub [VN p] = Ok (VN v) /\ inI v J.
Proof. exact encloses_neg. Qed.

Theorem C07_encloses_pos : forall sqrtK logK powK I p J, wf I -> inI p I ->
  ka_apply sqrtK logK powK FAdd [VI I] = Ok (VI J) ->
  exists v, ka_apply sqrtK logK powK FAdd [VN p] = Ok (VN v) /\ inI v J.
Proof. exact encloses_pos. Qed.

Theorem C07_encloses_abs : forall sqrtK logK powK I p J, wf I -> inI p I ->
  ka_apply sqrtK logK powK FAbs [VI I] = Ok (VI J) ->
  exists v, ka_apply sqrtK logK powK FAbs [VN p] = Ok (VN v) /\ inI v J.
Proof. exact encloses_abs. Qed.

(* ---------------------------------------------------------------- min, max (either side) *)
Theorem C07_encloses_min : forall sqrtK logK powK I x p J, wf I -> inI p I ->
  (ka_apply sqrtK logK powK FMin [VI I; VN x] = Ok (VI J) ->
     exists v, ka_apply sqrtK logK powK FMin [VN p; VN x] = Ok (VN v) /\ inI v J) /\
  (ka_apply sqrtK logK powK FMin [VN x; VI I] = Ok (VI J) ->
     exists v, ka_apply sqrtK logK powK FMin [VN x; VN p] = Ok (VN v) /\ inI v J).
Proof. exact encloses_min. Qed.

Theorem C07_encloses_max : forall sqrtK logK powK I x p J, wf I -> inI p I ->
  (ka_apply sqrtK logK powK FMax [VI I; VN x] = Ok (VI J) ->
     exists v, ka_apply sqrtK logK powK FMax [VN p; VN x] = Ok (VN v) /\ inI v J) /\
  (ka_apply sqrtK logK powK FMax [VN x; VI I] = Ok (VI J) ->
     exists v, ka_apply sqrtK logK powK FMax [VN x; VN p] = Ok (VN v) /\ inI v J).
Proof. exact encloses_max. Qed.

(* ---------------------------------------------------------------- ± and tol *)
(* x ± y is [x - |y|, x + |y|] (a negative tolerance is re-ordered): well-formed, contains
   x, x - y, x + y and every x + t with |t| <= |y|. *)
Theorem C07_encloses_plusminus : forall sqrtK logK powK f x y, In f [FPm; FTol] ->
  exists J, ka_apply sqrtK logK powK f [VN x; VN y] = Ok (VI J) /\
    wf J /\ inI x J /\ inI (x - y) J /\ inI (x + y) J /\
    (forall t, Qabs t <= Qabs y -> inI (x + t) J) /\
    lo J == x - Qabs y /\ hi J == x + Qabs y.
Proof. exact plusminus_ok. Qed.

(* ---------------------------------------------------------------- ^ *)
(* All integer exponents — negative, zero, odd, even — on intervals that are negative,
   positive or straddle zero: the point power is the exact rational power p ^ n.  No
   assumption on powK (integer powers never consult it). *)
Theorem C07_encloses_pow_int : forall sqrtK logK powK I e p J,
  is_fractional e = false -> wf I -> inI p I ->
  ka_apply sqrtK logK powK FPow [VI I; VN e] = Ok (VI J) ->
  exists v, ka_apply sqrtK logK powK FPow [VN p; VN e] = Ok (VN v) /\ inI v J /\
            v = p ^ int_of e.
Proof. exact encloses_pow_int. Qed.

(* Non-integer exponents, assuming x ** r is monotone in x >= 0 (increasing for r > 0,
   decreasing for r < 0). *)
Theorem C07_encloses_pow_frac : forall sqrtK logK powK I e p J,
  pow_monotone powK -> is_fractional e = true -> wf I -> inI p I ->
  ka_apply sqrtK logK powK FPow [VI I; VN e] = Ok (VI J) ->
  exists v, ka_apply sqrtK logK powK FPow [VN p; VN e] = Ok (VN v) /\ inI v J /\
            v = powK p e.
Proof. exact encloses_pow_frac. Qed.

(* ---------------------------------------------------------------- sqrt, ln, log2, log10, log *)
Theorem C07_encloses_sqrt : forall sqrtK logK powK I p J,
  sqrt_monotone sqrtK -> wf I -> inI p I ->
  ka_apply sqrtK logK powK FSqrt [VI I] = Ok (VI J) ->
  exists v, ka_apply sqrtK logK powK FSqrt [VN p] = Ok (VN v) /\ inI v J.
Proof. exact encloses_sqrt. Qed.

(* any valid base: above 1 (increasing) and in (0, 1) (decreasing: bounds re-ordered) *)
Theorem C07_encloses_log : forall sqrtK logK powK I base p J,
  log_monotone logK -> wf I -> inI p I ->
  ka_apply sqrtK logK powK FLog [VI I; VN base] = Ok (VI J) ->
  exists v, ka_apply sqrtK logK powK FLog [VN p; VN base] = Ok (VN v) /\ inI v J.
Proof. exact encloses_log. Qed.

Theorem C07_encloses_ln : forall sqrtK logK powK I p J,
  log_monotone logK -> wf I -> inI p I ->
  ka_apply sqrtK logK powK FLn [VI I] = Ok (VI J) ->
  exists v, ka_apply sqrtK logK powK FLn [VN p] = Ok (VN v) /\ inI v J.
Proof. exact encloses_ln. Qed.

Theorem C07_encloses_log2 : forall sqrtK logK powK I p J,
  log_monotone logK -> wf I -> inI p I ->
  ka_apply sqrtK logK powK FLog2 [VI I] = Ok (VI J) ->
  exists v, ka_apply sqrtK logK powK FLog2 [VN p] = Ok (VN v) /\ inI v J.
Proof. exact encloses_log2. Qed.

Theorem C07_encloses_log10 : forall sqrtK logK powK I p J,
  log_monotone logK -> wf I -> inI p I ->
  ka_apply sqrtK logK powK FLog10 [VI I] = Ok (VI J) ->
  exists v, ka_apply sqrtK logK powK FLog10 [VN p] = Ok (VN v) /\ inI v J.
Proof. exact encloses_log10. Qed.

(* ---------------------------------------------------------------- rejections *)
(* Undefined somewhere on the operand => a diagnosed error and no interval. *)
Theorem C07_rejects_sqrt : forall sqrtK logK powK I p, inI p I -> p < 0 ->
  ka_apply sqrtK logK powK FSqrt [VI I] = Raise KaRuntimeError.
Proof. exact rejects_sqrt. Qed.

Theorem C07_rejects_log : forall sqrtK logK powK I p, inI p I -> p <= 0 ->
  (forall base, ka_apply sqrtK logK powK FLog [VI I; VN base] = Raise KaRuntimeError) /\
  ka_apply sqrtK logK powK FLn [VI I] = Raise KaRuntimeError /\
  ka_apply sqrtK logK powK FLog2 [VI I] = Raise KaRuntimeError /\
  ka_apply sqrtK logK powK FLog10 [VI I] = Raise KaRuntimeError.
Proof. exact rejects_log. Qed.

Theorem C07_rejects_base : forall sqrtK logK powK I base, base <= 0 \/ base == 1 ->
  ka_apply sqrtK logK powK FLog [VI I; VN base] = Raise KaRuntimeError.
Proof. exact rejects_base. Qed.

Theorem C07_rejects_pow_negative : forall sqrtK logK powK I e, inI 0 I -> e < 0 ->
  ka_apply sqrtK logK powK FPow [VI I; VN e] = Raise KaRuntimeError.
Proof. exact rejects_pow_negative. Qed.

Theorem C07_rejects_pow_fractional : forall sqrtK logK powK I e p,
  inI p I -> p < 0 -> is_fractional e = true ->
  ka_apply sqrtK logK powK FPow [VI I; VN e] = Raise KaRuntimeError.
Proof. exact rejects_pow_fractional. Qed.

Theorem C07_rejects_div_zero : forall sqrtK logK powK I x, x == 0 ->
  ka_apply sqrtK logK powK FDiv [VI I; VN x] = Raise ZeroDivisionError.
Proof. exact div_by_zero. Qed.

(* ---------------------------------------------------------------- comparisons: "for all" *)
(* cmp_names = [<; <=; >; >=];  cmp_rel f is the relation on numbers.  The result is the
   number 0 or 1, and it is 1 exactly when the relation holds for all points (all pairs).
   ">" and ">=" run the swap closures (only reachable through dispatch: the parser flips the
   text `a > b` into "<"(b, a), see C07_cmp_surface_flip). *)
Theorem C07_cmp_forall_interval_number : forall sqrtK logK powK f I x,
  In f cmp_names -> wf I ->
  exists r, ka_apply sqrtK logK powK f [VI I; VN x] = Ok (VN r) /\ (r = 0 \/ r = 1) /\
            (r = 1 <-> forall p, inI p I -> cmp_rel f p x).
Proof. exact cmp_interval_number. Qed.

Theorem C07_cmp_forall_number_interval : forall sqrtK logK powK f x I,
  In f cmp_names -> wf I ->
  exists r, ka_apply sqrtK logK powK f [VN x; VI I] = Ok (VN r) /\ (r = 0 \/ r = 1) /\
            (r = 1 <-> forall p, inI p I -> cmp_rel f x p).
Proof. exact cmp_number_interval. Qed.

Theorem C07_cmp_forall_interval_interval : forall sqrtK logK powK f I J,
  In f cmp_names -> wf I -> wf J ->
  exists r, ka_apply sqrtK logK powK f [VI I; VI J] = Ok (VN r) /\ (r = 0 \/ r = 1) /\
            (r = 1 <-> forall p q, inI p I -> inI q J -> cmp_rel f p q).
Proof. exact cmp_interval_interval. Qed.

Theorem C07_cmp_surface_flip : forall sqrtK logK powK a b,
  (forall va vb, ka_apply sqrtK logK powK FGt [va; vb] = ka_apply sqrtK logK powK FLt [vb; va]) /\
  (forall va vb, ka_apply sqrtK logK powK FGe [va; vb] = ka_apply sqrtK logK powK FLe [vb; va]) /\
  surface_cmp FGt a b = E2 FLt b a /\ surface_cmp FGe a b = E2 FLe b a.
Proof. exact surface_flip_agrees. Qed.

(* ---------------------------------------------------------------- in / contains *)
Theorem C07_in : forall sqrtK logK powK x I,
  exists r, ka_apply sqrtK logK powK FIn [VN x; VI I] = Ok (VN r) /\
            ka_apply sqrtK logK powK FContains [VI I; VN x] = Ok (VN r) /\
            (r = 0 \/ r = 1) /\ (r = 1 <-> lo I <= x /\ x <= hi I).
Proof. exact in_ok. Qed.

(* ---------------------------------------------------------------- == and != *)
Theorem C07_eq_neq : forall sqrtK logK powK I J,
  exists r s, ka_apply sqrtK logK powK FEq [VI I; VI J] = Ok (VN r) /\
              ka_apply sqrtK logK powK FNe [VI I; VI J] = Ok (VN s) /\
    (r = 0 \/ r = 1) /\ (s = 0 \/ s = 1) /\ r + s == 1 /\
    (r = 1 <-> lo I == lo J /\ hi I == hi J) /\
    (s = 1 <-> ~ (lo I == lo J /\ hi I == hi J)).
Proof. exact eq_neq_ok. Qed.

(* ---------------------------------------------------------------- size, lower, upper *)
Theorem C07_size : forall sqrtK logK powK I,
  ka_apply sqrtK logK powK FSize [VI I] = Ok (VN (iv_size I)) /\ 0 <= iv_size I /\
  (wf I -> iv_size I == hi I - lo I).
Proof. exact size_ok. Qed.

Theorem C07_lower_upper : forall sqrtK logK powK I,
  ka_apply sqrtK logK powK FLower [VI I] = Ok (VN (lo I)) /\
  ka_apply sqrtK logK powK FUpper [VI I] = Ok (VN (hi I)).
Proof. exact lower_upper_ok. Qed.

(* ---------------------------------------------------------------- non-vacuity *)
(* integer powers and arithmetic never consult the irrational stand-ins *)
Definition k1 (x : Q) : Q := x.
Definition k2 (x y : Q) : Q := y.
Definition lit (a b : Q) : iexpr := E2 FInterval (ENum a) (ENum b).

Example C07_ex_cube :       (* [-2,3]^3 = [-8,27] *)
  eval k1 k2 k2 (E2 FPow (lit (-2) 3) (ENum 3)) = Ok (VI (mkI (-8) 27)).
Proof. vm_compute. reflexivity. Qed.
Example C07_ex_neg_power :  (* [1/2,2]^-2 = [1/4,4] *)
  eval k1 k2 k2 (E2 FPow (lit (1#2) 2) (ENum (-2))) = Ok (VI (mkI (1#4) 4)).
Proof. vm_compute. reflexivity. Qed.
Example C07_ex_neg_mult :   (* [1,2]*(-1) = [-2,-1] *)
  eval k1 k2 k2 (E2 FMul (lit 1 2) (ENum (-1))) = Ok (VI (mkI (-2) (-1))).
Proof. vm_compute. reflexivity. Qed.
Example C07_ex_even_power_of_negative :  (* [-3,-1]^2 = [1,9] *)
  eval k1 k2 k2 (E2 FPow (lit (-3) (-1)) (ENum 2)) = Ok (VI (mkI 1 9)).
Proof. vm_compute. reflexivity. Qed.
Example C07_ex_even_power_across_zero :  (* [-2,3]^2 = [0,9] *)
  eval k1 k2 k2 (E2 FPow (lit (-2) 3) (ENum 2)) = Ok (VI (mkI 0 9)).
Proof. vm_compute. reflexivity. Qed.
Example C07_ex_reversed_literal :        (* [3,1] = [0,0] *)
  eval k1 k2 k2 (lit 3 1) = Ok (VI (mkI 0 0)).
Proof. vm_compute. reflexivity. Qed.
Example C07_ex_unregistered :            (* 2 - [1,2] *)
  eval k1 k2 k2 (E2 FSub (ENum 2) (lit 1 2)) = Raise NoMatchingFunctionSignatureError.
Proof. vm_compute. reflexivity. Qed.
Example C07_ex_gt :                      (* [1,3] > 2 is 0, both ways of reaching it; [1,3] > 0 is 1 *)
  eval k1 k2 k2 (E2 FGt (lit 1 3) (ENum 2)) = Ok (VN 0) /\
  eval k1 k2 k2 (surface_cmp FGt (lit 1 3) (ENum 2)) = Ok (VN 0) /\
  eval k1 k2 k2 (E2 FGt (lit 1 3) (ENum 0)) = Ok (VN 1).
Proof. vm_compute. repeat split; reflexivity. Qed.
Example C07_ex_neq :                     (* [1,2] != [1,2] is 0 *)
  eval k1 k2 k2 (E2 FNe (lit 1 2) (lit 1 2)) = Ok (VN 0).
Proof. vm_compute. reflexivity. Qed.
(* log([1,8], 1/2) with a decreasing stand-in for the log: the bounds are re-ordered; and
   base 1 is rejected *)
Example C07_ex_log_small_base :
  eval k1 (fun b x => if Qle_bool 1 b then x else - x) k2 (E2 FLog (lit 1 8) (ENum (1#2)))
    = Ok (VI (mkI (-8) (-1))) /\
  eval k1 k2 k2 (E2 FLog (lit 1 8) (ENum 1)) = Raise KaRuntimeError.
Proof. vm_compute. split; reflexivity. Qed.

Print Assumptions C07_wellformed.
Print Assumptions C07_wellformed_expr.
Print Assumptions C07_wellformed_literal.
Print Assumptions C07_encloses_arith.
Print Assumptions C07_encloses_arith_number_left.
Print Assumptions C07_unregistered_orders.
Print Assumptions C07_resolution_is_registry.
Print Assumptions C07_encloses_neg.
Print Assumptions C07_encloses_pos.
Print Assumptions C07_encloses_abs.
Print Assumptions C07_encloses_min.
Print Assumptions C07_encloses_max.
Print Assumptions C07_encloses_plusminus.
Print Assumptions C07_encloses_pow_int.
Print Assumptions C07_encloses_pow_frac.
Print Assumptions C07_encloses_sqrt.
Print Assumptions C07_encloses_log.
Print Assumptions C07_encloses_ln.
Print Assumptions C07_encloses_log2.
Print Assumptions C07_encloses_log10.
Print Assumptions C07_rejects_sqrt.
Print Assumptions C07_rejects_log.
Print Assumptions C07_rejects_base.
Print Assumptions C07_rejects_pow_negative.
Print Assumptions C07_rejects_pow_fractional.
Print Assumptions C07_rejects_div_zero.
Print Assumptions C07_cmp_forall_interval_number.
Print Assumptions C07_cmp_forall_number_interval.
Print Assumptions C07_cmp_forall_interval_interval.
Print Assumptions C07_cmp_surface_flip.
Print Assumptions C07_in.
Print Assumptions C07_eq_neq.
Print Assumptions C07_size.
Print Assumptions C07_lower_upper.
