(* C13 — Unit names resolve uniquely, prefixes scale exactly, sizes match definitions.
   Model: Model/Units.v (lookup_unit, apply_prefix as units.py:56-80).  The registry
   (Gen/GenUnits.v: prefixes, units, name_to_unit, symbol_to_unit, base_units) is regenerated
   from the live ka.units on every run; the computed facts in GenFacts/UnitFacts.v are re-proved
   against it each time.  The reference table (dimension and physical definition of every
   physical unit, definitional ratios) is hand-written in Proofs/UnitSpec.v.
   Bounds of the computed theorems: the generated tables `prefixes`, `units`, `name_to_unit`,
   `symbol_to_unit`.  Statements only. *)
From Coq Require Import List String QArith Qabs.
From Ka Require Import Model.Units Proofs.UnitsProofs Proofs.UnitSpec GenFacts.UnitFacts.
Local Open Scope string_scope.

(* ---------------------------------------------------------------- general: ANY registry *)

(* A spelling that is itself registered always means that unit, unscaled: names are looked up
   first, then symbols, and only then prefixes. *)
Theorem C13_registered_wins : forall (R : registry) (n : string) (i : nat),
  registry_wf R = true ->
  In (n, i) (r_names R) \/ In (n, i) (r_symbols R) ->
  exists u, nth_error (r_units R) i = Some u
            /\ lookup_unit_in R n = LUnit i None (u_mult u) (unit_exact u).
Proof. exact registered_wins. Qed.

(* the same without any well-formedness assumption, in dictionary terms *)
Theorem C13_registered_wins_dict : forall (R : registry) (n : string),
  (forall i, dict_get n (r_names R) = Some i -> lookup_unit_in R n = plain R i)
  /\ (forall i, dict_get n (r_names R) = None -> dict_get n (r_symbols R) = Some i ->
                lookup_unit_in R n = plain R i).
Proof. exact registered_wins_dict. Qed.

(* prefix number pi (= p) written before a registered spelling s of unit i, by name on a name or
   by symbol on a symbol: if the combined spelling has no other reading (not itself registered,
   no earlier (prefix, unit) split in table order that means something else), the lookup is that
   prefix applied to that unit. *)
Theorem C13_prefix_reading_general :
  forall (R : registry) (by_symbol : bool) (pi : nat) (p : gprefix) (s : string) (i : nat),
  nth_error (r_prefixes R) pi = Some p ->
  dict_get s (if by_symbol then r_symbols R else r_names R) = Some i ->
  no_other_reading R by_symbol pi p i (combined by_symbol p s) = true ->
  same_reading (lookup_unit_in R (combined by_symbol p s)) (apply_prefix R pi p i) = true.
Proof. exact prefix_scaling_general. Qed.

Theorem C13_prefix_reading_strict :
  forall (R : registry) (by_symbol : bool) (pi : nat) (p : gprefix) (s : string) (i : nat),
  nth_error (r_prefixes R) pi = Some p ->
  dict_get s (if by_symbol then r_symbols R else r_names R) = Some i ->
  no_reading_before R by_symbol pi p (combined by_symbol p s) = true ->
  lookup_unit_in R (combined by_symbol p s) = apply_prefix R pi p i.
Proof. exact prefix_scaling_strict. Qed.

(* apply_prefix multiplies the multiple by the prefix's multiplier, or refuses an offset unit *)
Theorem C13_apply_prefix : forall (R : registry) (pi : nat) (p : gprefix) (i : nat) (u : gunit),
  nth_error (r_units R) i = Some u ->
  (q_is_zero (u_offset u) = true ->
     apply_prefix R pi p i = LUnit i (Some pi) (p_mult p * u_mult u) (kind_exact (p_kind p) && unit_exact u))
  /\ (q_is_zero (u_offset u) = false -> apply_prefix R pi p i = LInvalidPrefix).
Proof. exact apply_prefix_spec. Qed.

(* Exact string equality only (hence case-sensitive): an unscaled result means the spelling is,
   byte for byte, a key of NAME_TO_UNIT or SYMBOL_TO_UNIT for that unit; a scaled result means
   prefix text ++ registered spelling. *)
Theorem C13_readings_come_from_tables :
  forall (R : registry) (w : string) (i : nat) (sb : option nat) (m : Q) (e : bool),
  lookup_unit_in R w = LUnit i sb m e ->
  match sb with
  | None => (In (w, i) (r_names R) \/ In (w, i) (r_symbols R))
            /\ exists u, nth_error (r_units R) i = Some u /\ m = u_mult u /\ e = unit_exact u
  | Some pi => exists p, nth_error (r_prefixes R) pi = Some p /\ reading_of R w i p
            /\ exists u, nth_error (r_units R) i = Some u /\ m = p_mult p * u_mult u
  end.
Proof. exact readings_sound. Qed.

(* ---------------------------------------------------------------- this registry *)

Theorem C13_registered_wins_live : forall (n : string) (i : nat),
  In (n, i) name_to_unit \/ In (n, i) symbol_to_unit ->
  exists u, nth_error units i = Some u /\ lookup_unit n = LUnit i None (u_mult u) (unit_exact u).
Proof. exact (fun n i => registered_wins live n i registry_wf_true). Qed.

(* symbol, singular and (unless "noplural") plural of every unit mean that unit, unscaled *)
Theorem C13_three_spellings : forall (i : nat) (u : gunit),
  nth_error units i = Some u ->
  lookup_unit (u_symbol u) = LUnit i None (u_mult u) (unit_exact u)
  /\ lookup_unit (u_singular u) = LUnit i None (u_mult u) (unit_exact u)
  /\ (u_plural u <> "noplural" -> lookup_unit (u_plural u) = LUnit i None (u_mult u) (unit_exact u)).
Proof. exact (three_spellings_lifted live three_spellings_true). Qed.

(* every prefix x every unit x every spelling (prefix NAME on the unit's names, prefix SYMBOL on its
   symbol): the multiplier is exactly base^exp (base 10 or 2), and when the combined spelling has
   no other reading the result is unit i with multiple  multiplier * multiple  — as rationals, with
   the exactness flag of the unit (no float enters through a prefix) — or InvalidPrefixError for
   an offset unit. *)
Theorem C13_prefix_scaling :
  forall (pi : nat) (p : gprefix) (i : nat) (u : gunit) (sp : string * bool),
  nth_error prefixes pi = Some p -> nth_error units i = Some u -> In sp (spellings u) ->
  no_other_reading live (snd sp) pi p i (combine p sp) = true ->
  (p_mult p == Qpower (inject_Z (p_base p)) (p_exp p) /\ (p_base p = 10 \/ p_base p = 2)%Z)
  /\ (q_is_zero (u_offset u) = true ->
        exists sb m, lookup_unit (combine p sp) = LUnit i sb m (unit_exact u)
                     /\ m == p_mult p * u_mult u)
  /\ (q_is_zero (u_offset u) = false -> lookup_unit (combine p sp) = LInvalidPrefix).
Proof. exact (prefix_scaling_lifted live three_spellings_true prefixes_true). Qed.

(* prefixes are refused on offset units (degC, degF): every prefix, every spelling, whatever else
   is registered *)
Theorem C13_offset_refused :
  forall (p : gprefix) (i : nat) (u : gunit) (sp : string * bool),
  In p prefixes -> nth_error units i = Some u -> In sp (spellings u) ->
  q_is_zero (u_offset u) = false -> lookup_unit (combine p sp) = LInvalidPrefix.
Proof. exact (offset_refused_lifted live offset_refused_true). Qed.

(* the quantity space is  kg m s A K mol cd  (+ the base currency) *)
Theorem C13_base_units :
  firstn 7 base_units = ["kg"; "m"; "s"; "A"; "K"; "mol"; "cd"]
  /\ (skipn 7 base_units = [] /\ base_currency = None
      \/ exists c, skipn 7 base_units = [c] /\ base_currency = Some c).
Proof. exact (base_units_lifted base_units_true). Qed.

(* every physical unit has an entry in the reference table and exactly its SI dimension; a cash
   unit has the currency dimension only *)
Theorem C13_dimensions : forall (u : gunit), In u units ->
  (is_cash u = false ->
     exists e, spec_get (u_symbol u) unit_spec = Some e
       /\ List.length (u_dim u) = List.length base_units
       /\ u_dim u = (se_dim e ++ repeat 0%Z (List.length base_units - 7))%list)
  /\ (is_cash u = true ->
        List.length (u_dim u) = List.length base_units
        /\ firstn 7 (u_dim u) = repeat 0%Z 7 /\ skipn 7 (u_dim u) = [1%Z]).
Proof. exact (dimensions_lifted unit_spec live dimensions_true). Qed.

(* definitional ratios  1 a = f * (1 b)^k  (60 s/min, 12 in/ft, 3 ft/yd, 1760 yd/mi, 2 pt/qt,
   4 qt/gal, 8 b/B, 1000 kg/t, 100 cm/m, 1000 ml/l, 10^4 m^2/ha, ...): exact when both sides are
   int/Fraction, relative 1e-12 on the exact values of the floats otherwise; both sides have the
   same dimension *)
Theorem C13_ratios : forall (r : ratio), In r definitional_ratios ->
  (exists i sa ma ea j sb mb eb,
     lookup_unit (rt_a r) = LUnit i sa ma ea /\ lookup_unit (rt_b r) = LUnit j sb mb eb
     /\ (ea && eb = true -> ma == rt_factor r * Qpower mb (rt_pow r))
     /\ Qabs (ma - rt_factor r * Qpower mb (rt_pow r))
        <= (1 # 1000000000000) * Qabs (rt_factor r * Qpower mb (rt_pow r)))
  /\ dim_of live (rt_a r) = map (Z.mul (rt_pow r)) (dim_of live (rt_b r)).
Proof.
  exact (fun r H => conj (ratios_lifted live tol12 definitional_ratios (Qle_bool_imp_le 0 tol12 eq_refl) ratios_true r H)
                         (proj1 (ratio_dims_lifted live _ ratio_dims_true r (in_or_app _ _ r (or_introl H))))).
Qed.

(* Ratios among units whose sizes Ka stores rounded (lb 0.45 kg, oz 28.35 g, st 6.35 kg,
   cup 284.13 ml, hp 735.5 W, year 365 d, ...): within 2 %, NOT exact.  PARTIAL: 16 oz per lb,
   14 lb per st, 16 dr per oz, 7000 gr per lb, 2 cup per pt, 3 tsp per tbsp do not hold exactly
   in Ka (see C13_rounded_ratios_not_exact); the property's 1 % clause on sizes is what holds. *)
Theorem C13_rounded_ratios_partial : forall (r : ratio), In r rounded_ratios ->
  exists i sa ma ea j sb mb eb,
    lookup_unit (rt_a r) = LUnit i sa ma ea /\ lookup_unit (rt_b r) = LUnit j sb mb eb
    /\ Qabs (ma - rt_factor r * Qpower mb (rt_pow r))
       <= (2 # 100) * Qabs (rt_factor r * Qpower mb (rt_pow r)).
Proof. exact (ratios_within_lifted live (2 # 100) rounded_ratios rounded_ratios_true). Qed.

(* every physical unit's multiple is within 1 % of its physical definition *)
Theorem C13_within_1pct : forall (u : gunit), In u units -> is_cash u = false ->
  exists e, spec_get (u_symbol u) unit_spec = Some e
    /\ 0 < se_size e /\ Qabs (u_mult u - se_size e) <= (1 # 100) * se_size e.
Proof. exact (sizes_lifted unit_spec live sizes_true). Qed.

(* offsets: 273.15 for degC, 459.67 * 5/9 for degF (relative 1e-12), zero for everything else *)
Theorem C13_offsets : forall (u : gunit), In u units ->
  (is_cash u = true -> u_offset u == 0)
  /\ (is_cash u = false -> exists e, spec_get (u_symbol u) unit_spec = Some e
        /\ (se_offset e == 0 -> u_offset u == 0)
        /\ Qabs (u_offset u - se_offset e) <= (1 # 1000000000000) * Qabs (se_offset e)).
Proof. exact (offsets_lifted unit_spec live offsets_true). Qed.

(* case-sensitive: the all-upper-case and all-lower-case variant of any registered spelling never
   has that spelling's reading unless the variant is itself registered; plus a representative
   list of variants ("M", "KG", "Metre", "hz", "USD", ...) that read differently or not at all *)
Theorem C13_case_sensitive :
  (forall (u : gunit) (sp : string * bool) (v : string), In u units -> In sp (spellings u) ->
     v = upper (fst sp) \/ v = lower (fst sp) -> v <> fst sp ->
     same_reading (lookup_unit v) (lookup_unit (fst sp)) = false \/ registered live v = true)
  /\ (forall v w, In (v, w) case_variants ->
        (exists i sb m e, lookup_unit w = LUnit i sb m e)
        /\ same_reading (lookup_unit v) (lookup_unit w) = false).
Proof. exact (conj (case_lifted live case_true) (distinct_lifted live case_variants case_variants_true)). Qed.

(* ---------------------------------------------------------------- non-vacuity *)
Example C13_witness_kilometre :
  exists pi i m, lookup_unit "kilometre" = LUnit i (Some pi) m true /\ m == 1000
    /\ lookup_unit "km" = LUnit i (Some pi) m true
    /\ exists p u, nth_error prefixes pi = Some p /\ p_name p = "kilo" /\ nth_error units i = Some u
         /\ u_symbol u = "m" /\ no_other_reading live false pi p i "kilometre" = true.
Proof.
  do 3 eexists. split; [vm_compute; reflexivity|]. split; [reflexivity|].
  split; [vm_compute; reflexivity|]. do 2 eexists. repeat split; vm_compute; reflexivity.
Qed.

(* a combined spelling WITH another reading: "min" is the minute, not the milli-inch; "cd" the
   candela, not the centi-day *)
Example C13_witness_shadowed :
  (exists i m e, lookup_unit "min" = LUnit i None m e /\ m == 60
     /\ exists u, nth_error units i = Some u /\ u_singular u = "minute")
  /\ (exists i m e, lookup_unit "cd" = LUnit i None m e
        /\ exists u, nth_error units i = Some u /\ u_singular u = "candela")
  /\ (registered live "min" = true
      /\ forall by_symbol pi p i, no_other_reading live by_symbol pi p i "min" = false).
Proof.
  split; [|split].
  - do 3 eexists. split; [vm_compute; reflexivity|]. split; [reflexivity|]. eexists. split; vm_compute; reflexivity.
  - do 3 eexists. split; [vm_compute; reflexivity|]. eexists. split; vm_compute; reflexivity.
  - assert (E : registered live "min" = true) by (vm_compute; reflexivity).
    split; [exact E|]. intros. unfold no_other_reading. rewrite E. reflexivity.
Qed.

Example C13_witness_offset :
  lookup_unit "kilodegC" = LInvalidPrefix /\ lookup_unit "mdegF" = LInvalidPrefix
  /\ has_offset_unit live = true.
Proof. repeat split; vm_compute; reflexivity. Qed.

Example C13_witness_case :
  lookup_unit "M" = LNone /\ lookup_unit "KG" = LNone /\ lookup_unit "Metre" = LNone
  /\ exists i m e, lookup_unit "metre" = LUnit i None m e.
Proof. repeat split; try (vm_compute; reflexivity). do 3 eexists. vm_compute. reflexivity. Qed.

(* the rounded avoirdupois sizes: 16 oz is not exactly 1 lb in Ka (453.6 g against 450 g) *)
Example C13_rounded_ratios_not_exact :
  ratio_holds live tol12 (Rt "lb" "oz" 1 16) = false /\ ratio_holds live tol12 (Rt "st" "lb" 1 14) = false.
Proof. split; vm_compute; reflexivity. Qed.

Example C13_witness_two_pints : ratio_holds live tol12 (Rt "qt" "pt" 1 2) = true.
Proof. vm_compute. reflexivity. Qed.

Print Assumptions C13_registered_wins.
Print Assumptions C13_registered_wins_dict.
Print Assumptions C13_prefix_reading_general.
Print Assumptions C13_prefix_reading_strict.
Print Assumptions C13_apply_prefix.
Print Assumptions C13_readings_come_from_tables.
Print Assumptions C13_registered_wins_live.
Print Assumptions C13_three_spellings.
Print Assumptions C13_prefix_scaling.
Print Assumptions C13_offset_refused.
Print Assumptions C13_base_units.
Print Assumptions C13_dimensions.
Print Assumptions C13_ratios.
Print Assumptions C13_rounded_ratios_partial.
Print Assumptions C13_within_1pct.
Print Assumptions C13_offsets.
Print Assumptions C13_case_sensitive.
