(* C05 — Lazy combinatorics never changes a value.  Statements only. *)
From Coq Require Import ZArith QArith List.
From Ka Require Import Model.Num Model.Comb Proofs.CombProofs Gen.GenLogic GenFacts.LogicFacts.
Import ListNotations.

(* For every expression tree over n!, C(n,k), integers, * and / in any nesting, and + - the six
   comparisons and abs/floor/ceil/round/int/unary signs at the boundary: resolving the lazy
   evaluation gives exactly the result of eager big-integer/rational arithmetic — the same
   value, or the same error (division by zero included).  In particular the explicit-fuel
   cancellation loop never runs out (the eager side has no fuel). *)
Theorem C05_value : forall e, ceval_top e = ceval_eager e.
Proof. exact lazy_equals_eager. Qed.

(* The optimisation step by step: range subtraction preserves the quotient of products ... *)
Theorem C05_difference_sound : forall s o sr orr,
  (lo s <= hi s)%Z -> (lo o <= hi o)%Z -> intersects s o = true -> difference s o = (sr, orr) ->
  (prod_range s * prod_ranges orr = prod_range o * prod_ranges sr)%Z
  /\ (nzr s -> Forall nzr sr) /\ (nzr o -> Forall nzr orr).
Proof. exact difference_sound. Qed.

(* ... Combinatoric.mul multiplies the value by the new numerators over the new denominators
   (for ranges without zero; a zero factor never becomes a range, see C05_zero_factor) ... *)
Theorem C05_mul_value : forall ns ds new_ns new_ds ns' ds',
  Forall nzr ns -> Forall nzr ds -> Forall nzr new_ns -> Forall nzr new_ds ->
  comb_mul ns ds new_ns new_ds = Ok (ns', ds') ->
  (prod_ranges ns' * (prod_ranges ds * prod_ranges new_ds)
    = prod_ranges ns * prod_ranges new_ns * prod_ranges ds')%Z
  /\ Forall nzr ns' /\ Forall nzr ds'.
Proof. exact comb_mul_sound. Qed.

(* ... the cancellation loop terminates within the computed fuel ... *)
Theorem C05_mul_terminates : forall ns ds new_ns new_ds,
  Forall nzr ns -> Forall nzr ds -> Forall nzr new_ns -> Forall nzr new_ds ->
  exists ns' ds', comb_mul ns ds new_ns new_ds = Ok (ns', ds').
Proof. exact comb_mul_total. Qed.

(* ... and resolve() multiplies out exactly what is left. *)
Theorem C05_resolve_value : forall ns ds, Forall nzr ds ->
  resolve ns ds = Ok (norm (inject_Z (prod_ranges ns) / inject_Z (prod_ranges ds))).
Proof. exact resolve_sound. Qed.

(* A zero factor collapses to the number 0 and never becomes a cancellable range. *)
Theorem C05_zero_factor : forall ns ds, comb_times_frac ns ds (NInt 0) = Ok (CNum (NInt 0)).
Proof. intros; reflexivity. Qed.

(* The eager side is the mathematical one: (n+1)! = (n+1) n!, n! = 1 below 2, and
   n!/(k!(n-k)!) is the Pascal-triangle binomial coefficient, an integer. *)
Theorem C05_factorial_rec : forall n, (0 <= n)%Z -> fact_Z (n + 1) = ((n + 1) * fact_Z n)%Z.
Proof. exact fact_Z_succ. Qed.
Theorem C05_choose_is_binomial : forall n k, (k <= n)%nat ->
  choose_num (Z.of_nat n) (Z.of_nat k) = NInt (binom n k).
Proof. exact choose_num_is_binomial. Qed.

(* The tie for the range functions is by TRANSLATION, re-checked on every run: Gen/GenLogic.v is
   regenerated from the Python AST of IntRange.is_empty / intersects / difference and of
   lazy_factorial / lazy_choose, and the model's definitions are proved equal to it. *)
Theorem C05_model_is_source :
  (forall r, is_empty r = g_is_empty r) /\ (forall a b, intersects a b = g_intersects a b)
  /\ (forall s o, difference s o = g_difference s o)
  /\ (forall n, lazy_factorial n = g_lazy_factorial n) /\ (forall n k, lazy_choose n k = g_lazy_choose n k).
Proof.
  exact (conj is_empty_is_source (conj intersects_is_source (conj difference_is_source
          (conj lazy_factorial_is_source lazy_choose_is_source)))).
Qed.

(* Non-vacuity: one tree per overlap case, zero and negative factors, division by zero. *)
Example C05_witness :
  ceval_top (CDiv (CFact 10000) (CFact 9999)) = Ok (NInt 10000)
  /\ ceval_top (CDiv (CDiv (CFact 10) (CFact 4)) (CDiv (CFact 7) (CFact 2))) = Ok (NInt 60)
  /\ ceval_top (CDiv (CMul (CInt (-3)) (CFact 5)) (CInt (-6))) = Ok (NInt 60)
  /\ ceval_top (CDiv (CMul (CInt 0) (CFact 5)) (CMul (CInt 0) (CFact 3))) = Raise ZeroDivisionError
  /\ ceval_top (CAdd (CChoose 5 2) (CChoose 4 7)) = Ok (NInt 10).
Proof. vm_compute. repeat split. Qed.

Print Assumptions C05_value.
Print Assumptions C05_difference_sound.
Print Assumptions C05_mul_value.
Print Assumptions C05_mul_terminates.
Print Assumptions C05_resolve_value.
Print Assumptions C05_zero_factor.
Print Assumptions C05_factorial_rec.
Print Assumptions C05_choose_is_binomial.
Print Assumptions C05_model_is_source.
