(* C14 — Variables, sessions and namespaces behave like a calculator memory.
   Statements only; each is closed by [exact <lemma>] (Proofs/SessionProofs.v,
   GenFacts/SessionFacts.v for the facts about the regenerated CONSTANTS table).

   The model (Model/Session.v): a session is a binding table copied from the constants table;
   statements are assignments and expressions over literals, variables, + - * /, calls f(a),
   f(a,b), a unit suffix `a u` and the comprehension {body : x in lo..hi} (which writes x in the
   shared table); evaluation threads the table and returns it also on an exception.
   Function dispatch and unit lookup take no table argument: C14_namespaces is therefore
   near-definitional IN THE MODEL and its assurance rests on the history correspondence of the
   C14 check (the implementation's dispatch()/lookup_unit() never receive the environment —
   the runs observe that shadowed names keep working). The same holds for C14_isolation:
   in a functional model other sessions cannot be touched; what is proved is the projection
   property over interleavings, and the check observes both live environments and CONSTANTS. *)
From Coq Require Import List String ZArith QArith Qabs.
From Ka Require Import Model.Session Proofs.SessionProofs GenFacts.SessionFacts.
Local Open Scope string_scope.

(* --- last write wins.  (1) For ANY sequence of writes to the table, a name reads as the most
   recent write to it (or as before if never written) — induction over the history. *)
Theorem C14_last_write_wins_table : forall ws t x,
  tget x (apply_writes ws t) =
  match last_write x ws with Some v => Some v | None => tget x t end.
Proof. exact last_write_wins_table. Qed.

(* (2) Over histories of statements: once `x = e` has delivered v after any prefix ss1, then after
   any further statements ss2 that do not write x (no assignment to x, no comprehension over x) —
   run to completion or stopped by a failing statement — x still reads as v. *)
Theorem C14_last_write_wins : forall ss1 x e ss2 t v t1,
  run_one (ss1 ++ [Assign x e]) t = (Ok (Some v), t1) ->
  (forall s, In s ss2 -> stmt_writes x s = false) ->
  forall r t2, run_one (ss1 ++ [Assign x e] ++ ss2) t = (r, t2) ->
  tget x t2 = Some v /\ eval (EVar x) t2 = (Ok v, t2).
Proof. exact last_write_wins. Qed.

(* (3) what is not written is not changed, for every name and statement list *)
Theorem C14_frame : forall x ss, (forall s, In s ss -> stmt_writes x s = false) ->
  forall last t, tget x (snd (run_from last ss t)) = tget x t.
Proof. exact run_from_frame. Qed.

(* (4) the documented side effect: {body : x in lo..hi} leaves x bound to hi *)
Theorem C14_comprehension_leaves_binding : forall body x lo hi t v t',
  (lo <= hi)%Z -> expr_writes x body = false ->
  eval (EComp body x lo hi) t = (Ok v, t') -> tget x t' = Some (VNum (NInt hi)).
Proof. exact comprehension_leaves_binding. Qed.

(* --- constants: a fresh session is the regenerated CONSTANTS table; true/false are 1/0; pi and
   e are the doubles math.pi/math.e (exact rationals), within 1e-15 of the real constants *)
Theorem C14_constants_initial : forall i,
  sessions (new_session i init_store) i = Some const_table
  /\ tget "pi" const_table = Some (VNum (NFlt (884279719003555 # 281474976710656)))
  /\ tget "e" const_table = Some (VNum (NFlt (6121026514868073 # 2251799813685248)))
  /\ tget "true" const_table = Some (VNum (NInt 1))
  /\ tget "false" const_table = Some (VNum (NInt 0))
  /\ Qabs ((884279719003555 # 281474976710656) - (314159265358979323846 # 100000000000000000000)) < 1 # 1000000000000000
  /\ Qabs ((6121026514868073 # 2251799813685248) - (271828182845904523536 # 100000000000000000000)) < 1 # 1000000000000000.
Proof. exact constants_initial. Qed.

(* --- isolation: an input to session i changes neither another session nor the constants *)
Theorem C14_isolation_step : forall i input st,
  consts (snd (exec_in i input st)) = consts st
  /\ forall j, j <> i -> sessions (snd (exec_in i input st)) j = sessions st j.
Proof. exact exec_in_isolated. Qed.
(* over every interleaved history: session j ends exactly as if only its own inputs had been
   entered (started from any store with the same table for j), and the constants never change *)
Theorem C14_isolation : forall j h st st', sessions st j = sessions st' j ->
  sessions (snd (run_hist h st)) j =
  sessions (snd (run_hist (filter (fun p => Nat.eqb (fst p) j) h) st')) j.
Proof. exact run_hist_isolation. Qed.
Theorem C14_constants_never_change : forall h st, consts (snd (run_hist h st)) = consts st.
Proof. exact run_hist_consts. Qed.
(* reassigning a constant in one session: a session created afterwards still starts from the
   constants table; execute() without an environment leaves the store as it was *)
Theorem C14_new_session : forall i st,
  sessions (new_session i st) i = Some (consts st) /\ consts (new_session i st) = consts st
  /\ (forall j, j <> i -> sessions (new_session i st) j = sessions st j).
Proof. exact new_session_spec. Qed.
Theorem C14_fresh_env_each_time : forall input st, snd (exec_fresh input st) = st.
Proof. exact exec_fresh_isolated. Qed.

(* --- namespaces (near-definitional, see the header): with the name bound as a variable to any
   value, a call still is fn_apply of the name and a unit suffix still is unit_apply of the name *)
Theorem C14_namespaces : forall f u z z2 v t,
  fst (eval (ECall1 f (ELit z)) (tset f v t)) = fn_apply f [VNum (NInt z)]
  /\ fst (eval (ECall2 f (ELit z) (ELit z2)) (tset f v t)) = fn_apply f [VNum (NInt z); VNum (NInt z2)]
  /\ fst (eval (EQty (ELit z) u) (tset u v t)) = unit_apply u (NInt z)
  /\ fst (eval (ECall1 f (ELit z)) t) = fn_apply f [VNum (NInt z)]
  /\ fst (eval (EQty (ELit z) u) t) = unit_apply u (NInt z).
Proof. exact namespaces_shadow. Qed.
(* for any argument expression: the table only supplies the argument's value *)
Theorem C14_call_uses_function_table : forall f a t,
  eval (ECall1 f a) t =
  (let '(ra, t1) := eval a t in (match ra with Ok va => fn_apply f [va] | Raise x => Raise x end, t1)).
Proof. exact call_shape. Qed.
Theorem C14_unit_uses_unit_table : forall a u t,
  eval (EQty a u) t =
  (let '(ra, t1) := eval a t in (match ra with Ok va => make_quantity va u | Raise x => Raise x end, t1)).
Proof. exact qty_shape. Qed.

(* --- one input or n inputs.  For every list of statements and every way of cutting it into
   successive non-empty inputs to the same session: the same outcome — the same final value, or
   the same exception at the first failing statement — and the same binding table.  Equality of
   the (outcome, table) pairs is what "up to the first failing statement" means: both stop at
   that statement, deliver its exception, and keep every binding made before it (including
   those the failing statement itself made before raising, e.g. by a comprehension). *)
Theorem C14_split : forall groups, Forall (fun g => g <> []) groups ->
  forall t, run_many groups t = run_one (List.concat groups) t.
Proof. exact split_equiv. Qed.
(* the failing case spelled out: a prefix that completes, then a failing statement *)
Theorem C14_split_failure : forall pre s post t v t1 e t2,
  run_one pre t = (Ok v, t1) -> exec_stmt s t1 = (Raise e, t2) ->
  run_one (pre ++ s :: post) t = (Raise e, t2).
Proof. exact run_one_prefix_failure. Qed.

(* --- reading an unassigned name is an EvalError (diagnosed: execute() prints a message and
   returns 1), alone or as `x = x + 1`; in a fresh session every name but the constants is unassigned *)
Theorem C14_unassigned : forall x t, tget x t = None ->
  eval (EVar x) t = (Raise EvalError, t) /\ run_one [Expr (EVar x)] t = (Raise EvalError, t)
  /\ diagnosed EvalError = true.
Proof. exact unassigned_read. Qed.
Theorem C14_unassigned_self_increment : forall x t, tget x t = None ->
  run_one [Assign x (EBin BAdd (EVar x) (ELit 1))] t = (Raise EvalError, t).
Proof. exact unassigned_self_increment. Qed.
Theorem C14_fresh_unassigned : forall x, x <> "e" -> x <> "pi" -> x <> "true" -> x <> "false" ->
  tget x const_table = None.
Proof. exact fresh_unassigned. Qed.

(* ---------------- non-vacuity ---------------- *)
(* shadowed names keep working, on the live registries *)
Example C14_witness_shadowing :
  run_one [Assign "sin" (ELit 3); Expr (ECall1 "sin" (ELit 0))] const_table
    = (Ok (Some (VNum (NInt 0))), tset "sin" (VNum (NInt 3)) const_table)
  /\ run_one [Assign "m" (ELit 5); Expr (EQty (ELit 2) "m")] const_table
    = (Ok (Some (VQty (NInt 2) [0; 1; 0; 0; 0; 0; 0; 0]%Z)), tset "m" (VNum (NInt 5)) const_table)
  /\ run_one [Assign "max" (ELit 1); Expr (ECall2 "max" (ELit 2) (ELit 3))] const_table
    = (Ok (Some (VNum (NInt 3))), tset "max" (VNum (NInt 1)) const_table)
  /\ run_one [Assign "x" (ELit 1); Expr (ECall1 "x" (ELit 2))] const_table
    = (Raise UnknownFunctionError, tset "x" (VNum (NInt 1)) const_table).
Proof. exact shadowing_examples. Qed.

(* a = 1; b = 1/0; c = 2  — as one input and as three: a stays bound, c never is *)
Example C14_witness_failure_in_the_middle :
  run_one [Assign "a" (ELit 1); Assign "b" (EBin BDiv (ELit 1) (ELit 0)); Assign "c" (ELit 2)] []
    = (Raise ZeroDivisionError, [("a", VNum (NInt 1))])
  /\ run_many [[Assign "a" (ELit 1)]; [Assign "b" (EBin BDiv (ELit 1) (ELit 0))]; [Assign "c" (ELit 2)]] []
    = (Raise ZeroDivisionError, [("a", VNum (NInt 1))])
  /\ diagnosed ZeroDivisionError = true.
Proof. vm_compute. repeat split; reflexivity. Qed.

(* two sessions interleaved; a comprehension leaves x = 3; pi reassigned in session 0 only *)
Example C14_witness_history :
  vm_hist [(0%nat, [Assign "pi" (ELit 3)]); (1%nat, [Expr (EBin BMul (ELit 2) (EVar "true"))]);
           (0%nat, [Expr (EComp (EBin BMul (EVar "x") (ELit 2)) "x" 1 3); Expr (EVar "x")]);
           (1%nat, [Expr (EVar "x")]); (1%nat, [Expr (EComp (EBin BDiv (ELit 1) (EBin BSub (EVar "k") (ELit 2))) "k" 1 3)])]
  = "I:3~I:2~I:3~E:EvalError~E:ZeroDivisionError#e=X:6121026514868073/2251799813685248&pi=I:3&true=I:1&false=I:0&x=I:3#e=X:6121026514868073/2251799813685248&pi=X:884279719003555/281474976710656&true=I:1&false=I:0&k=I:2#e=X:6121026514868073/2251799813685248&pi=X:884279719003555/281474976710656&true=I:1&false=I:0".
Proof. vm_compute. reflexivity. Qed.

Print Assumptions C14_last_write_wins_table.
Print Assumptions C14_last_write_wins.
Print Assumptions C14_frame.
Print Assumptions C14_comprehension_leaves_binding.
Print Assumptions C14_constants_initial.
Print Assumptions C14_isolation_step.
Print Assumptions C14_isolation.
Print Assumptions C14_constants_never_change.
Print Assumptions C14_new_session.
Print Assumptions C14_fresh_env_each_time.
Print Assumptions C14_namespaces.
Print Assumptions C14_call_uses_function_table.
Print Assumptions C14_unit_uses_unit_table.
Print Assumptions C14_split.
Print Assumptions C14_split_failure.
Print Assumptions C14_unassigned.
Print Assumptions C14_unassigned_self_increment.
Print Assumptions C14_fresh_unassigned.
