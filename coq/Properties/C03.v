(* C03 — Quantity algebra is dimensionally sound.  Statements only.
   [n] is the number of base dimensions (regenerated: 7 SI + the base currency). Units are
   records (dimension vector, multiple, offset) already resolved by name lookup (C13). *)
From Coq Require Import ZArith List.
From Ka Require Import Model.Num Model.Qty Proofs.QtyProofs.
Import ListNotations.

(* Every value a quantity expression evaluates to has exactly the dimension computed from
   the units' dimension vectors: * and / add and subtract exponents; + - comparisons and `to`
   demand equal dimensions; a plain number is the zero vector.  All trees, all signatures
   (negative exponents, `|`), all operators. *)
Theorem C03_dimension : forall n e, wf_expr n e ->
  forall v, qeval n e = Ok v -> dim_spec n e = Some (is_q v, qdim n v).
Proof. exact qeval_dimension. Qed.

(* Mixing dimensions under + - a comparison or `to` (or re-tagging a quantity, or converting
   a plain number) never yields a value. *)
Theorem C03_mismatch_rejected : forall n e, wf_expr n e -> dim_spec n e = None ->
  forall v, qeval n e <> Ok v.
Proof. exact mismatch_rejected. Qed.

(* A plain number behaves as a dimensionless quantity on either side of every operator. *)
Theorem C03_number_is_dimensionless_left : forall n o x m d,
  q_binop n o (VN x) (VQ m d) = q_binop n o (VQ x (vzero n)) (VQ m d).
Proof. exact number_is_dimensionless_l. Qed.
Theorem C03_number_is_dimensionless_right : forall n o x m d,
  q_binop n o (VQ m d) (VN x) = q_binop n o (VQ m d) (VQ x (vzero n)).
Proof. exact number_is_dimensionless_r. Qed.
Theorem C03_number_is_dimensionless_cmp_left : forall n c x m d,
  q_cmp n c (VN x) (VQ m d) = q_cmp n c (VQ x (vzero n)) (VQ m d).
Proof. exact number_is_dimensionless_cmp_l. Qed.
Theorem C03_number_is_dimensionless_cmp_right : forall n c x m d,
  q_cmp n c (VQ m d) (VN x) = q_cmp n c (VQ m d) (VQ x (vzero n)).
Proof. exact number_is_dimensionless_cmp_r. Qed.

(* The dimension of a result does not depend on multiples, offsets, prefixes or spellings. *)
Theorem C03_spelling_independent : forall n e, dim_spec n (strip e) = dim_spec n e.
Proof. exact dim_spec_spelling_independent. Qed.

(* compose_units: the dimension of `a b^n | c d^m` is  sum e_i dim(u_i) - sum f_j dim(v_j). *)
Theorem C03_signature : forall n s qv m o, wf_sig n s ->
  compose_units n s = Ok (qv, m, o) -> qv = sig_dim n s.
Proof. exact compose_units_dim. Qed.

(* Non-vacuity: (3 kg m | s^2) / (2 cm^2) + 1 Pa has the dimension of Pa; 1 m + 1 s is rejected. *)
Definition u_kg := {| ud := [1;0;0]%Z; um := NInt 1; uo := NInt 0 |}.
Definition u_m := {| ud := [0;1;0]%Z; um := NInt 1; uo := NInt 0 |}.
Definition u_cm := {| ud := [0;1;0]%Z; um := NFrac (1#100); uo := NInt 0 |}.
Definition u_s := {| ud := [0;0;1]%Z; um := NInt 1; uo := NInt 0 |}.
Definition u_Pa := {| ud := [1;-1;-2]%Z; um := NInt 1; uo := NInt 0 |}.
Example C03_witness :
  qeval 3 (QBin QAdd (QBin QDiv (QTag (QLit (ALit 3)) ([(u_kg,1%Z);(u_m,1%Z)], [(u_s,2%Z)]))
                                 (QTag (QLit (ALit 2)) ([(u_cm,2%Z)], [])))
                     (QTag (QLit (ALit 1)) ([(u_Pa,1%Z)], [])))
    = Ok (VQ (NInt 15001) [1;-1;-2]%Z)
  /\ dim_spec 3 (QBin QAdd (QTag (QLit (ALit 1)) ([(u_m,1%Z)], [])) (QTag (QLit (ALit 1)) ([(u_s,1%Z)], []))) = None.
Proof. vm_compute. split; reflexivity. Qed.

Print Assumptions C03_dimension.
Print Assumptions C03_mismatch_rejected.
Print Assumptions C03_number_is_dimensionless_left.
Print Assumptions C03_number_is_dimensionless_right.
Print Assumptions C03_number_is_dimensionless_cmp_left.
Print Assumptions C03_number_is_dimensionless_cmp_right.
Print Assumptions C03_spelling_independent.
Print Assumptions C03_signature.
