(* C12 — Ranges, comprehensions and array aggregates follow their stated semantics.
   Statements only; each is closed by [exact <lemma>] (Proofs/ArraysProofs.v).
   The model is Model/Arrays.v; "exact numbers" are int/Fraction ([exact], [canonical] of
   Model/Num.v), quantities are Model/Qty.v's [qval] with magnitudes in base units. *)
From Coq Require Import ZArith QArith Qround List String Sorting.Permutation Sorting.Sorted.
From Ka Require Import Model.Num Model.Qty Model.Arrays Proofs.ArraysProofs.
Import ListNotations.

(* ---------------------------------------------------------------------------------------
   lo..hi = range(lo, hi): the integers lo, lo+1, ..., hi — as a list formula, by length and
   i-th element, by membership, strictly ascending; empty when lo > hi.  All lo, hi in Z. *)
Theorem C12_range : forall lo hi : Z,
  int_range lo hi = map (fun k => Z.add lo (Z.of_nat k)) (seq 0 (Z.to_nat (hi - lo + 1)))
  /\ ((hi < lo)%Z -> int_range lo hi = [])
  /\ List.length (int_range lo hi) = Z.to_nat (hi - lo + 1)
  /\ (forall i, (i < Z.to_nat (hi - lo + 1))%nat -> nth_error (int_range lo hi) i = Some (lo + Z.of_nat i)%Z)
  /\ (forall x, In x (int_range lo hi) <-> (lo <= x <= hi)%Z)
  /\ StronglySorted Z.lt (int_range lo hi).
Proof. exact int_range_all. Qed.

(* range(lo, hi, step), exact (int/Fraction) arguments, step > 0, lo <= hi: with
   N = floor((hi-lo)/step) the loop (run on the fuel bound N+2, which is shown to suffice:
   the result is never OutOfFuel) returns exactly N+1 elements, the k-th being lo + k*step
   as an exact canonical number, none exceeding hi, and the next one would exceed hi. *)
Theorem C12_stepped : forall lo hi step : num,
  exact lo -> canonical lo -> exact hi -> exact step -> 0 < toQ step -> toQ lo <= toQ hi ->
  let N := range_count lo hi step in
  (0 <= N)%Z /\
  exists l, ka_range lo hi step = Ok l /\ List.length l = S (Z.to_nat N) /\
    (forall k v, nth_error l k = Some v ->
       exact v /\ canonical v /\ toQ v == toQ lo + inject_Z (Z.of_nat k) * toQ step /\ toQ v <= toQ hi) /\
    toQ hi < toQ lo + inject_Z (N + 1) * toQ step.
Proof. exact ka_range_spec. Qed.

(* lo > hi and step <= 0 are diagnosed errors (any numbers, floats included): no loop runs *)
Theorem C12_stepped_errors : forall lo hi step : num,
  (toQ hi < toQ lo -> ka_range lo hi step = Raise FunctionArgError)
  /\ (toQ step <= 0 -> ka_range lo hi step = Raise FunctionArgError).
Proof. exact ka_range_errors. Qed.

(* ---------------------------------------------------------------------------------------
   Comprehensions, for any value/environment types and any state-passing evaluators of the
   body, generators and conditions.  With at least one generator (names and generators pair
   up), the index loop equals the declarative reading [comp_spec]: generators evaluated
   first, in order; all must be arrays; the positions are the rows of the zip-truncated
   arrays ([rows], up to the shortest); at each position the variables are bound in order,
   every condition is evaluated, the body is evaluated when all were 1; afterwards the
   generators before the first shortest one are bound once more (the variables stay bound). *)
Theorem C12_comprehension : forall (V E : Type) (setv : string -> V -> E -> E)
    (as_arr : V -> option (list V)) (blike : V -> option bool)
    (body : ev V E) (names : list string) (gens conds : list (ev V E)) (env : E),
  names <> [] -> List.length names = List.length gens ->
  eval_comprehension V E setv as_arr blike body names gens conds env =
  match eval_list V E gens env with
  | Raise x => Raise x
  | Ok (vs, env1) =>
      match all_arrays V as_arr vs with
      | None => Raise EvalError
      | Some arrs => comp_spec V E setv blike body names arrs conds env1
      end
  end.
Proof. exact eval_comprehension_spec. Qed.

(* no generator: an error *)
Theorem C12_no_generator : forall V E setv as_arr blike (body : ev V E) gens conds env,
  eval_comprehension V E setv as_arr blike body [] gens conds env = Raise EvalError.
Proof. exact comp_no_generator. Qed.

(* a generator whose value is not an array: an error *)
Theorem C12_generator_not_array : forall V E setv as_arr blike (body : ev V E) names gens conds env vs env1,
  names <> [] -> eval_list V E gens env = Ok (vs, env1) -> Exists (fun v => as_arr v = None) vs ->
  eval_comprehension V E setv as_arr blike body names gens conds env = Raise EvalError.
Proof. exact comp_non_array. Qed.

(* with evaluators that only read the environment, the walk over the rows is a filter-map
   over the environments of the positions ... *)
Theorem C12_comprehension_pure : forall V E setv blike names
    (cs : list (E -> res V)) (body : E -> res V) (rs : list (list V)) (env : E),
  comp_rows V E setv blike names (map (pure V E) cs) (pure V E body) rs env =
  match filter_map_pure V E blike cs body (row_envs V E setv names rs env) with
  | Ok vs => Ok (vs, last (row_envs V E setv names rs env) env)
  | Raise x => Raise x
  end.
Proof. exact comp_rows_pure. Qed.

(* ... which, when every condition is 0 or 1 everywhere, lists the body values at the kept
   positions, in order *)
Theorem C12_comprehension_filter_map : forall V E blike (cs : list (E -> res V)) (body : E -> res V)
    (envs : list E) (keep : E -> bool) (bval : E -> V),
  (forall e, In e envs -> conds_pure V E blike cs e true = Ok (keep e)
                          /\ (keep e = true -> body e = Ok (bval e))) ->
  filter_map_pure V E blike cs body envs = Ok (map bval (filter keep envs)).
Proof. exact filter_map_success. Qed.

(* a position is kept exactly when all its conditions are 1 (all of them are evaluated) *)
Theorem C12_conditions_conjunction : forall V E blike (cs : list (E -> res V)) (e : E) ok bs,
  Forall2 (fun c b => exists v, c e = Ok v /\ blike v = Some b) cs bs ->
  conds_pure V E blike cs e ok = Ok (ok && forallb (fun b => b) bs)%bool.
Proof. exact conds_pure_ok. Qed.

(* a condition that is neither 0 nor 1 is an error, also after an earlier 0 *)
Theorem C12_condition_not_boolean : forall V E blike (pre : list (E -> res V)) c post (e : E) v ok bs,
  Forall2 (fun c b => exists v, c e = Ok v /\ blike v = Some b) pre bs ->
  c e = Ok v -> blike v = None ->
  conds_pure V E blike (pre ++ c :: post) e ok = Raise EvalError.
Proof. exact conds_pure_nonbool. Qed.

(* ---------------------------------------------------------------------------------------
   Aggregates over exact numbers, all lists. *)
Theorem C12_sum : forall ndims (nl : list num), Forall exact nl -> Forall canonical nl ->
  exists r, array_sum ndims (nvals nl) = Ok (VS (VN r))
    /\ toQ r == Qsum (map toQ nl) /\ canonical r /\ exact r.
Proof. exact sum_numbers. Qed.

Theorem C12_prod : forall ndims (nl : list num), Forall exact nl ->
  exists r, array_prod ndims (nvals nl) = Ok (VS (VN r))
    /\ toQ r == Qprod (map toQ nl) /\ canonical r /\ exact r.
Proof. exact prod_numbers. Qed.

Theorem C12_size : forall l : list value, array_size l = Ok (vint (Z.of_nat (List.length l))).
Proof. exact size_spec. Qed.

Theorem C12_mean : forall ndims x (l : list num), Forall exact (x :: l) -> Forall canonical (x :: l) ->
  exists r, array_mean ndims (nvals (x :: l)) = Ok (VS (VN r))
    /\ toQ r == Qsum (map toQ (x :: l)) / inject_Z (Z.of_nat (List.length (x :: l)))
    /\ canonical r /\ exact r.
Proof. exact mean_numbers. Qed.

(* canonical + exact means: an integral value is delivered as an int *)
Theorem C12_integral_as_int : forall r z, canonical r -> exact r -> toQ r == inject_Z z -> r = NInt z.
Proof. exact integral_as_int. Qed.

(* ---------------------------------------------------------------------------------------
   The same over scalars of one dimension d (plain numbers are the dimensionless case; a
   result is a Quantity as soon as one element is): dimension d, magnitude the sum / mean of
   the base-unit magnitudes. *)
Theorem C12_sum_quantities : forall ndims x l d,
  udim ndims d (x :: l) -> Forall qexact (x :: l) -> Forall qcanon (x :: l) ->
  exists r, array_sum ndims (map VS (x :: l)) = Ok (VS r)
    /\ qdim ndims r = d /\ mag r == Qsum (map mag (x :: l)) /\ qcanon r /\ qexact r
    /\ is_q r = existsb is_q (x :: l).
Proof. exact sum_spec. Qed.

Theorem C12_mean_quantities : forall ndims x l d,
  udim ndims d (x :: l) -> List.length d = ndims -> Forall qexact (x :: l) -> Forall qcanon (x :: l) ->
  exists r, array_mean ndims (map VS (x :: l)) = Ok (VS r)
    /\ qdim ndims r = d /\ mag r == Qsum (map mag (x :: l)) / inject_Z (Z.of_nat (List.length (x :: l)))
    /\ qcanon r /\ qexact r /\ is_q r = existsb is_q (x :: l).
Proof. exact mean_spec. Qed.

(* a product of quantities multiplies the dimensions (any mixture of dimensions) *)
Theorem C12_prod_quantities : forall ndims l, Forall qexact l ->
  exists r, array_prod ndims (map VS l) = Ok (VS r)
    /\ qdim ndims r = dims_sum ndims l (vzero ndims) /\ mag r == Qprod (map mag l)
    /\ qcanon r /\ qexact r /\ is_q r = existsb is_q l.
Proof. exact prod_spec. Qed.

(* min / max (any magnitudes, floats compare by their values): the result is an element —
   the first least / greatest one: everything before it is strictly greater / smaller,
   everything after it is not smaller / not greater *)
Theorem C12_min : forall ndims x l d, udim ndims d (x :: l) ->
  exists r pre post, array_min ndims (map VS (x :: l)) = Ok (VS r) /\ qdim ndims r = d
    /\ x :: l = pre ++ r :: post
    /\ Forall (fun s => mag r < mag s) pre /\ Forall (fun s => mag r <= mag s) post.
Proof. exact min_spec. Qed.

Theorem C12_max : forall ndims x l d, udim ndims d (x :: l) ->
  exists r pre post, array_max ndims (map VS (x :: l)) = Ok (VS r) /\ qdim ndims r = d
    /\ x :: l = pre ++ r :: post
    /\ Forall (fun s => mag s < mag r) pre /\ Forall (fun s => mag s <= mag r) post.
Proof. exact max_spec. Qed.

(* the sort under median: on scalars of one dimension it never fails and returns [qsort],
   a permutation of the input, ascending in magnitude, stable *)
Theorem C12_sort : forall ndims l d, udim ndims d l ->
  ka_sort ndims (map VS l) = Ok (map VS (qsort l))
  /\ Permutation l (qsort l) /\ StronglySorted lem (qsort l)
  /\ (forall q, filter (same_mag q) (qsort l) = filter (same_mag q) l).
Proof. exact sort_all. Qed.

(* median: the middle element of the sorted list, or the exact mean of the two middle ones *)
Theorem C12_median : forall ndims x l d,
  udim ndims d (x :: l) -> List.length d = ndims -> Forall qexact (x :: l) ->
  let sl := qsort (x :: l) in
  let n := List.length (x :: l) in
  (Nat.even n = false ->
     exists m, nth_error sl (Nat.div2 n) = Some m /\ array_median ndims (map VS (x :: l)) = Ok (VS m))
  /\ (Nat.even n = true ->
     exists a b r, nth_error sl (Nat.div2 n - 1) = Some a /\ nth_error sl (Nat.div2 n) = Some b
       /\ array_median ndims (map VS (x :: l)) = Ok (VS r)
       /\ qdim ndims r = d /\ mag r == (mag a + mag b) / 2 /\ qcanon r /\ qexact r
       /\ is_q r = (is_q a || is_q b)%bool).
Proof. exact median_spec. Qed.

(* x in A: 1 exactly when some element has the same magnitude, else 0 *)
Theorem C12_in : forall ndims x l d, qdim ndims x = d -> udim ndims d l ->
  (in_array ndims (VS x) (map VS l) = Ok (vint 1) <-> exists s, In s l /\ mag x == mag s)
  /\ (in_array ndims (VS x) (map VS l) = Ok (vint 0) <-> forall s, In s l -> ~ mag x == mag s).
Proof. exact in_iff. Qed.

(* mixed dimensions are rejected: as soon as an element's dimension differs from that of
   the elements before it *)
Theorem C12_mixed_dimensions : forall ndims p pre x post d,
  udim ndims d (p :: pre) -> qdim ndims x <> d ->
  let l := map VS ((p :: pre) ++ x :: post) in
  array_sum ndims l = Raise IncompatibleQuantitiesError
  /\ array_mean ndims l = Raise IncompatibleQuantitiesError
  /\ array_min ndims l = Raise IncompatibleQuantitiesError
  /\ array_max ndims l = Raise IncompatibleQuantitiesError
  /\ array_median ndims l = Raise IncompatibleQuantitiesError.
Proof. exact mixed_dimensions. Qed.

Theorem C12_in_mixed : forall ndims x pre y post d, qdim ndims x = d -> udim ndims d pre ->
  Forall (fun s => ~ mag x == mag s) pre -> qdim ndims y <> d ->
  in_array ndims (VS x) (map VS (pre ++ y :: post)) = Raise IncompatibleQuantitiesError.
Proof. exact in_mixed. Qed.

(* the empty array *)
Theorem C12_empty : forall ndims,
  array_sum ndims [] = Ok (vint 0) /\ array_prod ndims [] = Ok (vint 1) /\ array_size [] = Ok (vint 0)
  /\ array_mean ndims [] = Raise FunctionArgError /\ array_median ndims [] = Raise FunctionArgError
  /\ array_min ndims [] = Raise FunctionArgError /\ array_max ndims [] = Raise FunctionArgError
  /\ (forall x, in_array ndims x [] = Ok (vint 0))
  /\ vararg_ext ndims true [] = Raise FunctionArgError /\ vararg_ext ndims false [] = Raise FunctionArgError.
Proof. exact empty_cases. Qed.

(* ---------------------------------------------------------------------------------------
   Non-vacuity: the concrete evaluator on the property's own examples (8 base dimensions;
   m, cm, km, s as the registry resolves them). *)
Local Open Scope string_scope.
Definition u_m : unit := {| ud := [0;1;0;0;0;0;0;0]%Z; um := NInt 1; uo := NInt 0 |}.
Definition u_cm : unit := {| ud := [0;1;0;0;0;0;0;0]%Z; um := NFrac (1 # 100); uo := NInt 0 |}.
Definition u_km : unit := {| ud := [0;1;0;0;0;0;0;0]%Z; um := NInt 1000; uo := NInt 0 |}.
Definition u_s : unit := {| ud := [0;0;1;0;0;0;0;0]%Z; um := NInt 1; uo := NInt 0 |}.
Definition lit (z : Z) : expr := ENum (NInt z).
Definition tag (e : expr) (u : unit) : expr := ETag e ([(u, 1%Z)], []).
Definition dm : dimvec := [0;1;0;0;0;0;0;0]%Z.

Example C12_ex_ranges :
  run 8 (ERange (lit (-1)) (lit 2)) = Ok (VA [vint (-1); vint 0; vint 1; vint 2])
  /\ run 8 (ERange (lit 3) (lit 1)) = Ok (VA [])
  /\ run 8 (ERange (EBin QDiv (lit 1) (lit 2)) (lit 3)) = Raise NoMatchingFunctionSignatureError
  /\ run 8 (ERange3 (lit 0) (lit 1) (EBin QDiv (lit 1) (lit 3)))
     = Ok (VA [vint 0; VS (VN (NFrac (1 # 3))); VS (VN (NFrac (2 # 3))); vint 1])
  /\ run 8 (ERange3 (lit 1) (lit 5) (lit 0)) = Raise FunctionArgError
  /\ run 8 (ERange3 (lit 1) (lit 5) (lit (-1))) = Raise FunctionArgError
  /\ run 8 (ERange3 (lit 3) (lit 1) (lit 1)) = Raise FunctionArgError.
Proof. vm_compute. repeat split. Qed.

Example C12_ex_aggregates :
  run 8 (EAgg AMean (EArr [tag (lit 1) u_m; tag (lit 2) u_m])) = Ok (VS (VQ (NFrac (3 # 2)) dm))
  /\ run 8 (EAgg AMean (EArr [tag (lit 1) u_m; tag (lit 100) u_cm; tag (lit 2) u_km])) = Ok (VS (VQ (NFrac (2002 # 3)) dm))
  /\ run 8 (EAgg AMedian (EArr [tag (lit 1) u_m; tag (lit 2) u_m; tag (lit 3) u_m; tag (lit 4) u_m])) = Ok (VS (VQ (NFrac (5 # 2)) dm))
  /\ run 8 (EAgg ASum (EArr [tag (lit 1) u_m; tag (lit 1) u_s])) = Raise IncompatibleQuantitiesError
  /\ run 8 (EAgg AMax (EArr [tag (lit 1) u_m; tag (lit 1) u_s])) = Raise IncompatibleQuantitiesError
  /\ run 8 (EAgg AProd (EArr [tag (lit 1) u_m; tag (lit 2) u_s; lit 3])) = Ok (VS (VQ (NInt 6) [0;1;1;0;0;0;0;0]%Z))
  /\ run 8 (EAgg AProd (EArr [EFact 3; EChoose 5 2])) = Ok (vint 60)
  /\ run 8 (EAgg AMedian (EArr [lit 3; lit 1; lit 2; lit 4])) = Ok (VS (VN (NFrac (5 # 2))))
  /\ run 8 (EIn (lit 3) (EArr [lit 1; lit 2; lit 3])) = Ok (vint 1)
  /\ run 8 (EIn (tag (lit 1) u_m) (EArr [tag (lit 100) u_cm])) = Ok (vint 1)
  /\ run 8 (EAgg ASize (EArr [EArr [lit 1; lit 2]; EArr [lit 3]])) = Ok (vint 2)
  /\ run 8 (EAgg ASum (EArr [EArr [lit 1]; EArr [lit 2]])) = Raise NoMatchingFunctionSignatureError
  /\ run 8 (EAgg AMax (lit 1)) = Ok (vint 1)
  /\ run 8 (EVarargs false []) = Raise FunctionArgError.
Proof. vm_compute. repeat split. Qed.

Example C12_ex_comprehensions :
  (* {x+y : x in 1..3, y in {10,20}} stops at the shorter generator; x is left at 3, y at 20 *)
  run 8 (EComp (EBin QAdd (EVar "x") (EVar "y")) ["x"; "y"] [ERange (lit 1) (lit 3); EArr [lit 10; lit 20]] [])
    = Ok (VA [vint 11; vint 22])
  /\ run 8 (ESeq (EComp (EBin QAdd (EVar "x") (EVar "y")) ["x"; "y"] [ERange (lit 1) (lit 3); EArr [lit 10; lit 20]] []) (EVar "x"))
    = Ok (vint 3)
  /\ run 8 (ESeq (EComp (EBin QMul (EVar "x") (lit 2)) ["x"] [ERange (lit 1) (lit 3)] []) (EVar "x")) = Ok (vint 3)
  /\ run 8 (EComp (EVar "x") ["x"] [ERange (lit 1) (lit 5)] [ECmp QLt (EVar "x") (lit 4); ECmp QLt (lit 1) (EVar "x")])
    = Ok (VA [vint 2; vint 3])
  (* a non-boolean condition after a 0 still raises *)
  /\ run 8 (EComp (EVar "x") ["x"] [ERange (lit 1) (lit 3)] [ECmp QLt (EVar "x") (lit 0); EBin QAdd (EVar "x") (lit 5)])
    = Raise EvalError
  /\ run 8 (EComp (EVar "x") [] [] [ECmp QLt (lit 1) (lit 2)]) = Raise EvalError
  /\ run 8 (EComp (EVar "x") ["x"] [lit 5] []) = Raise EvalError.
Proof. vm_compute. repeat split. Qed.

Print Assumptions C12_range.
Print Assumptions C12_stepped.
Print Assumptions C12_stepped_errors.
Print Assumptions C12_comprehension.
Print Assumptions C12_no_generator.
Print Assumptions C12_generator_not_array.
Print Assumptions C12_comprehension_pure.
Print Assumptions C12_comprehension_filter_map.
Print Assumptions C12_conditions_conjunction.
Print Assumptions C12_condition_not_boolean.
Print Assumptions C12_sum.
Print Assumptions C12_prod.
Print Assumptions C12_size.
Print Assumptions C12_mean.
Print Assumptions C12_integral_as_int.
Print Assumptions C12_sum_quantities.
Print Assumptions C12_mean_quantities.
Print Assumptions C12_prod_quantities.
Print Assumptions C12_min.
Print Assumptions C12_max.
Print Assumptions C12_sort.
Print Assumptions C12_median.
Print Assumptions C12_in.
Print Assumptions C12_mixed_dimensions.
Print Assumptions C12_in_mixed.
Print Assumptions C12_empty.
